import WV.Model.Basic
import WV.Gen.Recv

/-!
C05 — `wormhole receive` writes only where it said it would, and never clobbers.

Executable model of the anchored code in `src/wormhole/cli/cmd_receive.py`
(`_decide_destname`, `_remove_existing`, `_ask_permission`, `_handle_file`, `_handle_directory`,
`_extract_file`, `_write_file`, `_write_directory`) over

* `posixpath` (`basename`, `dirname`, `join`, `normpath`, `abspath`) on strings, written to follow
  CPython's `posixpath.py` line by line (including the "exactly two leading slashes" rule);
* a filesystem that is only a function `Path → Option Kind` (what `os.path.exists/isfile/isdir`
  answer), updated by `os.remove`, `open(…, "wb")`, `os.rename`;
* `zipfile.ZipFile._extract_member`'s own member-name sanitisation (`zipArcname`, `zipTarget`) as a
  separate function: it is library code, modelled and compared on every run, not verified.

Paths are `List Char` (the driver converts from/to `String`), so that the proofs are plain list
inductions.
-/
namespace WV.C05

abbrev Path := List Char

/-! ## posixpath -/

/-- `p.split('/')` as (first component, remaining components); never empty, like Python's. -/
def splitSlash : Path → Path × List Path
  | [] => ([], [])
  | c :: cs =>
    if c = '/' then ([], (splitSlash cs).1 :: (splitSlash cs).2)
    else (c :: (splitSlash cs).1, (splitSlash cs).2)

/-- `p.split('/')` -/
def comps (p : Path) : List Path := (splitSlash p).1 :: (splitSlash p).2

/-- `'/'.join(cs)` -/
def joinSlash : List Path → Path
  | [] => []
  | [a] => a
  | a :: b :: rest => a ++ '/' :: joinSlash (b :: rest)

/-- `posixpath.basename`: `p[p.rfind('/')+1:]` -/
def basename : Path → Path
  | [] => []
  | c :: cs => if '/' ∈ cs then basename cs else if c = '/' then cs else c :: cs

/-- `head.rstrip('/')` -/
def rstripSlash (p : Path) : Path := (p.reverse.dropWhile (· = '/')).reverse

/-- `p[:p.rfind('/')+1]` -/
def headPart : Path → Path
  | [] => []
  | c :: cs => if '/' ∈ cs then c :: headPart cs else if c = '/' then [c] else []

/-- `posixpath.dirname` -/
def dirname (p : Path) : Path :=
  let head := headPart p
  if head ≠ [] ∧ head ≠ List.replicate head.length '/' then rstripSlash head else head

/-- one step of `posixpath.join(a, b)` -/
def join2 (a b : Path) : Path :=
  if b.head? = some '/' then b
  else if a = [] ∨ a.getLast? = some '/' then a ++ b
  else a ++ '/' :: b

def join3 (a b c : Path) : Path := join2 (join2 a b) c

/-- `initial_slashes` of `posixpath.normpath`: 0, 1, or 2 (exactly two leading slashes) -/
def initialSlashes : Path → Nat
  | [] => 0
  | c0 :: t0 =>
    if c0 ≠ '/' then 0 else
    match t0 with
    | [] => 1
    | c1 :: t1 =>
      if c1 ≠ '/' then 1 else
      match t1 with
      | [] => 2
      | c2 :: _ => if c2 = '/' then 1 else 2

def dot : Path := ['.']
def dotdot : Path := ['.', '.']

/-- body of the `for comp in comps` loop of `normpath`; the stack `new_comps` is kept reversed
    (head = last element).  `st.tail` is `new_comps.pop()` guarded by `elif new_comps:`. -/
def normStep (abs : Bool) (st : List Path) (c : Path) : List Path :=
  if c = [] ∨ c = dot then st
  else if c ≠ dotdot ∨ (abs = false ∧ st = []) ∨ st.head? = some dotdot then c :: st
  else st.tail

/-- `(initial_slashes, new_comps)` at the end of `normpath`'s loop -/
def normParts (p : Path) : Nat × List Path :=
  (initialSlashes p, ((comps p).foldl (normStep (initialSlashes p != 0)) []).reverse)

/-- `sep*initial_slashes + sep.join(comps)` -/
def render (x : Nat × List Path) : Path := List.replicate x.1 '/' ++ joinSlash x.2

/-- `posixpath.normpath` -/
def normpath (p : Path) : Path :=
  if p = [] then dot else
  let r := render (normParts p)
  if r = [] then dot else r

/-- `posixpath.abspath` with the process' working directory as a parameter -/
def abspath (proc : Path) (p : Path) : Path :=
  if p.head? = some '/' then normpath p else normpath (join2 proc p)

/-! ## the filesystem, as far as the anchored code looks at it -/

/-- what a symbolic link finally resolves to (`none` below = dangling) -/
inductive Res | file | dir | other
  deriving DecidableEq, Repr

/-- a directory entry, as `os.lstat` sees it.  `link r`: a symbolic link (or chain of links) whose
    resolution is `r` — `none` for a dangling link.  `other`: a SPECIAL node — named pipe, unix socket,
    device: it exists, and is neither a regular file nor a directory. -/
inductive Kind | file | dir | other | link (r : Option Res)
  deriving DecidableEq, Repr

/-- what `os.path.exists / isfile / isdir` (which FOLLOW links) and `os.path.lexists / islink`
    (which do not) answer -/
structure FS where
  kind : Path → Option Kind

namespace FS
/-- `os.path.exists`: follows links, so a dangling link "does not exist" -/
def pathExists (fs : FS) (p : Path) : Bool :=
  match fs.kind p with
  | none => false
  | some (.link r) => r.isSome
  | some _ => true
/-- `os.path.isfile`: follows links -/
def isFile (fs : FS) (p : Path) : Bool :=
  match fs.kind p with
  | some .file => true
  | some (.link (some .file)) => true
  | _ => false
/-- `os.path.isdir`: follows links -/
def isDir (fs : FS) (p : Path) : Bool :=
  match fs.kind p with
  | some .dir => true
  | some (.link (some .dir)) => true
  | _ => false
/-- `os.path.lexists` -/
def lexists (fs : FS) (p : Path) : Bool := (fs.kind p).isSome
/-- a real directory (not a link to one): what "an existing directory is never deleted" is about -/
def isRealDir (fs : FS) (p : Path) : Bool := fs.kind p == some .dir
/-- `os.remove(p)` / the source of `os.rename`: removes the entry itself, never what a link points to -/
def remove (fs : FS) (p : Path) : FS := ⟨fun q => if q = p then none else fs.kind q⟩
/-- the target of `os.rename`: the entry is replaced (a link at the target is replaced, not followed) -/
def set (fs : FS) (p : Path) (k : Kind) : FS := ⟨fun q => if q = p then some k else fs.kind q⟩
/-- `open(p, "wb")`: creates or truncates a regular file — THROUGH a symbolic link if `p` is one
    (afterwards the link resolves to a regular file, which lives wherever the link points) -/
def openWrite (fs : FS) (p : Path) : FS :=
  match fs.kind p with
  | some (.link _) => fs.set p (.link (some .file))
  | _ => fs.set p .file
def empty : FS := ⟨fun _ => none⟩
end FS

inductive Err
  | transferRejected   -- TransferRejectedError
  | respondError       -- RespondError("unknown mode")
  | valueError         -- ValueError("malicious zipfile …") / zipfile's "Empty filename."
  | osError            -- FileNotFoundError / NotADirectoryError / IsADirectoryError
  | transferError      -- TransferError (what `_go` makes of a RespondError; a dropped connection)
  deriving DecidableEq, Repr

def Err.name : Err → String
  | .transferRejected => "TransferRejectedError"
  | .respondError => "RespondError"
  | .valueError => "ValueError"
  | .osError => "OSError"
  | .transferError => "TransferError"

/-- the part of `args` the anchored code reads; `outputFile = []` is `None`/`""` (both falsy);
    `answer` is what the user types at `ok? (Y/n):`; `proc` is `os.getcwd()` (only consulted by
    `abspath` when `args.cwd` is relative). -/
structure Args where
  cwd : Path
  outputFile : Path
  acceptFile : Bool
  answer : Path
  proc : Path

/-- `cli.Config.__init__`: `self.cwd = os.getcwd()` — the "working directory" every destination is joined
    onto is the process' working directory, whatever the environment (`$PWD`, …) says.  That the
    source still reads so is the generated `WV.Gen.Recv.config_cwd_is_os_getcwd`, a proof obligation
    in `WV.Props.C05`. -/
def configCwd (proc : Path) (_envPWD : Path) : Path := proc

/-- the `Args` as the real entry point (`wormhole receive [-o O] [--accept-file] CODE`) builds them -/
def entryArgs (proc envPWD : Path) (outputFile : Path) (acceptFile : Bool) (answer : Path) : Args :=
  { cwd := configCwd proc envPWD, outputFile := outputFile, acceptFile := acceptFile, answer := answer, proc := proc }

/-- `ok.lower().startswith("y") or len(ok) == 0` -/
def answerYes (ok : Path) : Bool :=
  match ok with
  | [] => true
  | c :: _ => c = 'y' || c = 'Y'

/-- `.tmp`, taken from the source by the translator -/
def tmpSuffix : Path := WV.Gen.Recv.tmp_suffix_chars

/-- `Receiver._remove_existing`; the file system is returned on the exceptional path too -/
def removeExisting (fs : FS) (path : Path) : FS × Except Err Unit :=
  let fs1 := if fs.isFile path then fs.remove path else fs
  if fs1.isDir path then (fs1, .error .transferRejected) else (fs1, .ok ())

/-- second half of `_decide_destname` ("get confirmation from the user before writing to the
    local directory"): `abs_destname`, `overwrite_allowed` are the two locals at that point -/
def confirmOverwrite (fs : FS) (a : Args) (absDest : Path) (overwriteAllowed : Bool) : FS × Except Err Path :=
  if fs.pathExists absDest = true then
    if overwriteAllowed = true then
      if a.acceptFile = true then
        match removeExisting fs absDest with
        | (fs1, .error e) => (fs1, .error e)
        | (fs1, .ok _) => (fs1, .ok absDest)
      else (fs, .ok absDest)
    else (fs, .error .transferRejected)
  else (fs, .ok absDest)

/-- `Receiver._decide_destname(mode, destname)` (`mode` is unused by the code) -/
def decideDest (fs : FS) (a : Args) (destname : Path) : FS × Except Err Path :=
  let abs0 :=
    if a.outputFile ≠ [] then abspath a.proc (join2 a.cwd a.outputFile)
    else abspath a.proc (join2 a.cwd (basename destname))
  if a.outputFile ≠ [] ∧ fs.pathExists abs0 = true then
    if fs.isDir abs0 = true then
      confirmOverwrite fs a (abspath a.proc (join3 a.cwd a.outputFile (basename destname))) true
    else confirmOverwrite fs a abs0 true
  else confirmOverwrite fs a abs0 false

/-- `Receiver._ask_permission` (one `input()`; anything but yes/empty rejects) -/
def askPermission (fs : FS) (a : Args) (dest : Path) : FS × Except Err Unit :=
  if a.acceptFile = true then (fs, .ok ())
  else if answerYes a.answer = true then
    if fs.pathExists dest = true then removeExisting fs dest else (fs, .ok ())
  else (fs, .error .transferRejected)

/-- `estimate_free_space(dest)`: `os.statvfs(dirname(abspath(dest)))` raises when that directory
    is missing; the "insufficient space" rejection is not modelled (the harness offers tiny sizes). -/
def freeSpaceProbe (fs : FS) (a : Args) (dest : Path) : Except Err Unit :=
  if fs.pathExists (dirname (abspath a.proc dest)) = true then .ok () else .error .osError

/-- `Receiver._handle_file`: decides the destination, asks, opens `dest + ".tmp"` for writing.
    Result: `(abs_destname, tmp_destname)`. -/
def handleFile (fs : FS) (a : Args) (filename : Path) : FS × Except Err (Path × Path) :=
  match decideDest fs a filename with
  | (fs1, .error e) => (fs1, .error e)
  | (fs1, .ok dest) =>
    match freeSpaceProbe fs1 a dest with
    | .error e => (fs1, .error e)
    | .ok _ =>
      match askPermission fs1 a dest with
      | (fs2, .error e) => (fs2, .error e)
      | (fs2, .ok _) =>
        let tmp := dest ++ tmpSuffix
        -- open(tmp, "wb")
        -- open(tmp, "wb"): IsADirectoryError / ENXIO on a unix socket (`other`; a FIFO would block) / ENOENT, ENOTDIR
        if fs2.isDir tmp = true ∨ fs2.kind tmp = some .other ∨ fs2.isDir (dirname tmp) = false then (fs2, .error .osError)
        else (fs2.openWrite tmp, .ok (dest, tmp))

/-- `Receiver._handle_directory`: result `abs_destname` (the data goes to a spooled temp file) -/
def handleDirectory (fs : FS) (a : Args) (mode : Path) (dirnm : Path) : FS × Except Err Path :=
  if (['z', 'i', 'p', 'f', 'i', 'l', 'e'] : Path).isPrefixOf mode = false then (fs, .error .respondError) else
  match decideDest fs a dirnm with
  | (fs1, .error e) => (fs1, .error e)
  | (fs1, .ok dest) =>
    match freeSpaceProbe fs1 a dest with
    | .error e => (fs1, .error e)
    | .ok _ =>
      match askPermission fs1 a dest with
      | (fs2, .error e) => (fs2, .error e)
      | (fs2, .ok _) => (fs2, .ok dest)

/-- `Receiver._write_file`: `os.rename(tmp, abs_destname)` — fails onto a real directory; otherwise the
    entry at `tmp` (a link stays a link) replaces whatever entry is at the destination -/
def writeFile (fs : FS) (dest tmp : Path) : FS × Except Err Unit :=
  if fs.isRealDir dest = true then (fs, .error .osError)
  else
    match fs.kind tmp with
    | none => (fs, .error .osError)
    | some k => ((fs.remove tmp).set dest k, .ok ())

/-- the `try: yield self._parse_offer(…) except RespondError as r: … raise TransferError(r.response)` of
    `Receiver._go`: a `RespondError` (`TransferRejectedError` is one) is reported to the sender and
    becomes `TransferError`; anything else propagates.  The handler has NO file-system effect. -/
def goErr : Err → Err
  | .transferRejected => .transferError
  | .respondError => .transferError
  | e => e

/-- `_go` → `_parse_offer` for a file offer: `_handle_file`, `_transfer_data` (which raises
    `TransferError` when the connection drops before `filesize` bytes arrived), `_write_file`.
    On every failure the file system stays as it is at that point (a stray `NAME.tmp` included). -/
def offerFile (fs : FS) (a : Args) (filename : Path) (dropped : Bool) : FS × Except Err Path :=
  match handleFile fs a filename with
  | (fs1, .error e) => (fs1, .error (goErr e))
  | (fs1, .ok (d, t)) =>
    if dropped = true then (fs1, .error .transferError)
    else
      match writeFile fs1 d t with
      | (fs2, .error e) => (fs2, .error (goErr e))
      | (fs2, .ok _) => (fs2, .ok d)

/-- `_go` → `_parse_offer` for a directory offer, as far as paths that existed before are
    concerned: `_handle_directory`, `_transfer_data`, then `_write_directory`, which creates the
    destination directory as soon as zipfile starts on a member (`extracted`, observed by the harness;
    what happens below the destination is `writeDirectory`'s business). -/
def offerDirectory (fs : FS) (a : Args) (mode dirnm : Path) (dropped extracted : Bool) : FS × Except Err Path :=
  match handleDirectory fs a mode dirnm with
  | (fs1, .error e) => (fs1, .error (goErr e))
  | (fs1, .ok d) =>
    if dropped = true then (fs1, .error .transferError)
    else (if extracted = true then fs1.set d .dir else fs1, .ok d)

/-! ## more than one receive with the same `args` object

`cmd_receive.receive(args)` builds a NEW `Receiver(args)` every time and runs `go()`; nothing of an earlier Receiver is
visible to a later one.  What a later receive does share with an earlier one is the `args` (Config) object — a library
embedding, a GUI or a retry loop calls `receive(cfg)` again with the very same object — and the file system.  The
model therefore hands the `args` record back from every receive, as the receive leaves it.  Today no method of the
receive path assigns to it (`WV.Gen.Recv.outlives_receive = []`, a proof obligation in `WV.Props.C05`), so it comes
back as it went in; an assignment `self.args.x = v` in the source corresponds to `{ a with x := v }` here. -/

/-- what the sender offers, and what the environment does to the transfer (`dropped`: the connection is lost before
    all bytes arrived; `extracted`: zipfile got as far as creating the destination directory) -/
inductive Offer
  | file (name : Path) (dropped : Bool)
  | dir (mode name : Path) (dropped extracted : Bool)

/-- the name the sender put into the offer -/
def Offer.name : Offer → Path
  | .file n _ => n
  | .dir _ n _ _ => n

/-- one run: the offer, and what the user types at THIS run's `ok? (Y/n):` prompt (environment, not an option) -/
structure Step where
  answer : Path
  offer : Offer

/-- `cmd_receive.receive(args)` once: `(args as the receive leaves them, file system, result)` -/
def receive (a : Args) (fs : FS) (s : Step) : Args × FS × Except Err Path :=
  match s.offer with
  | .file n dr => (a, offerFile fs { a with answer := s.answer } n dr)
  | .dir m n dr ex => (a, offerDirectory fs { a with answer := s.answer } m n dr ex)

/-- one more receive after some: the `args` and the file system are the ones the previous receive left behind -/
def recvStep (st : Args × FS × List (Except Err Path)) (s : Step) : Args × FS × List (Except Err Path) :=
  ((receive st.1 st.2.1 s).1, (receive st.1 st.2.1 s).2.1, st.2.2 ++ [(receive st.1 st.2.1 s).2.2])

/-- a process that calls `receive(args)` once per step with the SAME `args` object: final args, final file system,
    the results in order -/
def receives (a : Args) (fs : FS) (steps : List Step) : Args × FS × List (Except Err Path) :=
  steps.foldl recvStep (a, fs, [])

/-- the guard of `Receiver._extract_file`: `Ok out_path` or `ValueError` -/
def extractGuard (proc : Path) (extractDir : Path) (filename : Path) : Except Err Path :=
  let out := abspath proc (join2 extractDir filename)
  if (extractDir ++ ['/']).isPrefixOf out = true then .ok out else .error .valueError

/-- `zipfile.ZipFile._extract_member`: the sanitised archive name … -/
def zipArcname (filename : Path) : Path :=
  joinSlash ((comps filename).filter (fun x => x ≠ [] ∧ x ≠ dot ∧ x ≠ dotdot))

/-- … and the path it writes (library code: modelled, compared on every run, not verified) -/
def zipTarget (extractDir : Path) (filename : Path) : Except Err Path :=
  if zipArcname filename = [] then .error .valueError
  else .ok (normpath (join2 extractDir (zipArcname filename)))

/-- `Receiver._extract_file` for one member: `(path zipfile writes, path that is chmod-ed)` -/
def extractFile (proc : Path) (extractDir : Path) (filename : Path) : Except Err (Path × Path) :=
  match extractGuard proc extractDir filename with
  | .error e => .error e
  | .ok out =>
    match zipTarget extractDir filename with
    | .error e => .error e
    | .ok tgt => .ok (tgt, out)

/-- `Receiver._write_directory`: the members in order, stopping at the first exception -/
def writeDirectory (proc : Path) (dest : Path) : List Path → List (Path × Path) × Option Err
  | [] => ([], none)
  | m :: ms =>
    match extractFile proc dest m with
    | .error e => ([], some e)
    | .ok w => let r := writeDirectory proc dest ms; (w :: r.1, r.2)

/-! ## call skeleton (tie to the translator's `WV.Gen.Recv.calls`)

What the model above calls, per method, in source order, in the translator's vocabulary.  The
agreement theorem in `WV.Props.C05` fails when the source adds, drops or reorders one of them. -/
def modelCalls : String → List (String × String)
  | "_decide_destname" =>
    [("if", "os.path.join"), ("if", "os.path.abspath"),
     ("else", "os.path.basename"), ("else", "os.path.join"), ("else", "os.path.abspath"),
     ("if", "os.path.exists"), ("if/if", "os.path.isdir"),
     ("if/if/if", "os.path.basename"), ("if/if/if", "os.path.join"), ("if/if/if", "os.path.abspath"),
     ("-", "os.path.exists"), ("if/if/if", "self._remove_existing"), ("if/else", "TransferRejectedError")]
  | "_remove_existing" =>
    [("-", "os.path.isfile"), ("if", "os.remove"), ("-", "os.path.isdir"), ("if", "TransferRejectedError")]
  | "_extract_file" =>
    [("-", "os.path.join"), ("-", "os.path.abspath"), ("-", "out_path.startswith"), ("if", "ValueError"),
     ("-", "zf.extract"), ("-", "os.chmod")]
  | "_write_file" => [("-", "f.close"), ("-", "os.rename")]
  -- `handleFile`: the staging file is `open(abs_destname + tmp_suffix, "wb")` — next to the destination, never in
  -- $TMPDIR — and `_write_file` is the single `os.rename` above (atomic, never follows a link at the destination)
  | "_handle_file" =>
    [("-", "self._decide_destname"), ("-", "estimate_free_space"), ("if", "TransferRejectedError"),
     ("-", "os.path.basename"), ("-", "self._ask_permission"), ("-", "open")]
  | "_handle_directory" =>
    [("-", "zipmode.startswith"), ("if", "RespondError"), ("-", "self._decide_destname"),
     ("-", "estimate_free_space"), ("if", "TransferRejectedError"), ("-", "os.path.basename"),
     ("-", "self._ask_permission"), ("-", "tempfile.SpooledTemporaryFile")]
  | "_ask_permission" =>
    [("while", "input"), ("while/if", "os.path.exists"), ("while/if/if", "self._remove_existing"),
     ("while", "TransferRejectedError")]
  -- the control flow around them (`offerFile`, `offerDirectory`, `goErr`): the only handler around
  -- `_parse_offer` reports to the sender and re-raises; nothing else runs on a failure path
  | "_go" =>
    [("-", "self._handle_code"), ("-", "self._show_verifier"), ("while", "self._get_data"),
     ("while/if", "self._parse_transit"), ("while/if/if", "TransferError"),
     ("while/if/try", "self._parse_offer"), ("while/if/except", "self._send_data"),
     ("while/if/except", "TransferError")]
  | "_parse_offer" =>
    [("if", "self._handle_text"),
     ("if", "self._handle_file"), ("if", "self._send_permission"), ("if", "self._establish_transit"),
     ("if", "self._transfer_data"), ("if", "self._write_file"), ("if", "self._close_transit"),
     ("else/if", "self._handle_directory"), ("else/if", "self._send_permission"),
     ("else/if", "self._establish_transit"), ("else/if", "self._transfer_data"),
     ("else/if", "self._write_directory"), ("else/if", "self._close_transit"),
     ("else/else", "self._msg"), ("else/else", "self._msg"), ("else/else", "RespondError")]
  | "_write_directory" =>
    [("-", "zipfile.ZipFile"), ("-", "zf.infolist"), ("for", "self._extract_file"), ("-", "f.close")]
  | _ => []

/-! ## driver (line protocol; every string argument is hex of its UTF-8, `-` = empty)

```
basename p | dirname p | normpath p | join a b | abspath proc p      -> hex
fs <path> <f|d|o|l-|lf|ld|lo>    -> ok           (register an existing entry; l? = symlink resolving to ?)
watch <path>                     -> ok           (register a path that does not exist yet)
args <cwd> <output_file> <accept 0/1> <answer> <proc>   -> ok
config_cwd <proc> <$PWD>         -> hex          (cli.Config().cwd)
entry_args <proc> <$PWD> <output_file> <accept 0/1> <answer>   -> ok   (args as the CLI entry point builds them)
decide <name>                    -> ok <dest> | <kinds>      or   <Error> | <kinds>
handle_file <name>               -> ok <dest> <tmp> | <kinds>
handle_dir <mode> <name>         -> ok <dest> | <kinds>
write_file                       -> ok | <kinds>             (rename of the last handle_file)
offer_file <name> <dropped 0/1>  -> ok <dest> | <kinds>      (Receiver.go() on a file offer, to the end)
offer_dir <mode> <name> <dropped 0/1> <extracted 0/1>  -> ok <dest> | <kinds>
guard <dest> <member>            -> ok <out_path> | ValueError
extract <dest> <member>          -> ok <target> <out_path> | ValueError
recv_file <answer> <name> <dropped 0/1>                         -> ok <dest> | <kinds> | <cwd> <output_file> <accept 0/1>
recv_dir <answer> <mode> <name> <dropped 0/1> <extracted 0/1>   -> ok <dest> | <kinds> | <cwd> <output_file> <accept 0/1>
```
`recv_*`: one `cmd_receive.receive(args)` of a sequence — the args set by `args`/`entry_args` are THREADED through (the
next `recv_*` runs with what this one left), and printed after the step.
`<kinds>`: kind (`f d o -`) of every registered path, in registration order, after the step.
-/

structure DrvSt where
  fs : FS
  reg : List Path
  args : Args
  last : Option (Path × Path)

def drvInit : DrvSt :=
  { fs := FS.empty, reg := [], args := { cwd := [], outputFile := [], acceptFile := false, answer := [], proc := [] },
    last := none }

def kindChar : Option Kind → String
  | none => "-"
  | some .file => "f"
  | some .dir => "d"
  | some .other => "o"
  | some (.link none) => "l-"
  | some (.link (some .file)) => "lf"
  | some (.link (some .dir)) => "ld"
  | some (.link (some .other)) => "lo"

def kindOfChar : String → Option Kind
  | "f" => some .file
  | "d" => some .dir
  | "o" => some .other
  | "l-" => some (.link none)
  | "lf" => some (.link (some .file))
  | "ld" => some (.link (some .dir))
  | "lo" => some (.link (some .other))
  | _ => none

def showKinds (s : DrvSt) : String := " ".intercalate (s.reg.map (fun p => kindChar (s.fs.kind p)))

def hx (p : Path) : String := hexOfStr (String.ofList p)
def unhx (t : String) : Option Path := (strOfHex? t).map String.toList

def showArgs (a : Args) : String := s!"{hx a.cwd} {hx a.outputFile} {if a.acceptFile then 1 else 0}"

/-- a `recv_*` line: run `receive`, keep the args and the file system it leaves -/
def drvReceive (s : DrvSt) (st : Step) : DrvSt × String :=
  match receive s.args s.fs st with
  | (a', fs', .ok d) =>
    let s' := { s with fs := fs', args := a', last := none }; (s', s!"ok {hx d} | {showKinds s'} | {showArgs a'}")
  | (a', fs', .error e) =>
    let s' := { s with fs := fs', args := a', last := none }; (s', s!"{e.name} | {showKinds s'} | {showArgs a'}")

def step (s : DrvSt) (line : String) : DrvSt × String :=
  match tokens line with
  | ["reset"] => (drvInit, "ok")
  | ["basename", p] => (s, match unhx p with | some p => hx (basename p) | none => "bad-op")
  | ["dirname", p] => (s, match unhx p with | some p => hx (dirname p) | none => "bad-op")
  | ["normpath", p] => (s, match unhx p with | some p => hx (normpath p) | none => "bad-op")
  | ["join", a, b] => (s, match unhx a, unhx b with | some a, some b => hx (join2 a b) | _, _ => "bad-op")
  | ["abspath", c, p] => (s, match unhx c, unhx p with | some c, some p => hx (abspath c p) | _, _ => "bad-op")
  | ["fs", p, k] =>
    match unhx p, kindOfChar k with
    | some p, some k => ({ s with fs := s.fs.set p k, reg := s.reg ++ [p] }, "ok")
    | _, _ => (s, "bad-op")
  | ["watch", p] =>
    match unhx p with
    | some p => ({ s with reg := s.reg ++ [p] }, "ok")
    | none => (s, "bad-op")
  | ["args", cwd, o, acc, ans, proc] =>
    match unhx cwd, unhx o, unhx ans, unhx proc with
    | some cwd, some o, some ans, some proc =>
      ({ s with args := { cwd := cwd, outputFile := o, acceptFile := acc == "1", answer := ans, proc := proc } }, "ok")
    | _, _, _, _ => (s, "bad-op")
  | ["config_cwd", c, e] =>
    (s, match unhx c, unhx e with | some c, some e => hx (configCwd c e) | _, _ => "bad-op")
  | ["entry_args", c, e, o, acc, ans] =>
    match unhx c, unhx e, unhx o, unhx ans with
    | some c, some e, some o, some ans => ({ s with args := entryArgs c e o (acc == "1") ans }, "ok")
    | _, _, _, _ => (s, "bad-op")
  | ["decide", n] =>
    match unhx n with
    | some n =>
      match decideDest s.fs s.args n with
      | (fs', .ok d) => let s' := { s with fs := fs' }; (s', s!"ok {hx d} | {showKinds s'}")
      | (fs', .error e) => let s' := { s with fs := fs' }; (s', s!"{e.name} | {showKinds s'}")
    | none => (s, "bad-op")
  | ["handle_file", n] =>
    match unhx n with
    | some n =>
      match handleFile s.fs s.args n with
      | (fs', .ok (d, t)) =>
        let s' := { s with fs := fs', last := some (d, t) }; (s', s!"ok {hx d} {hx t} | {showKinds s'}")
      | (fs', .error e) => let s' := { s with fs := fs', last := none }; (s', s!"{e.name} | {showKinds s'}")
    | none => (s, "bad-op")
  | ["handle_dir", m, n] =>
    match unhx m, unhx n with
    | some m, some n =>
      match handleDirectory s.fs s.args m n with
      | (fs', .ok d) => let s' := { s with fs := fs' }; (s', s!"ok {hx d} | {showKinds s'}")
      | (fs', .error e) => let s' := { s with fs := fs' }; (s', s!"{e.name} | {showKinds s'}")
    | _, _ => (s, "bad-op")
  | ["offer_file", n, dr] =>
    match unhx n with
    | some n =>
      match offerFile s.fs s.args n (dr == "1") with
      | (fs', .ok d) => let s' := { s with fs := fs' }; (s', s!"ok {hx d} | {showKinds s'}")
      | (fs', .error e) => let s' := { s with fs := fs' }; (s', s!"{e.name} | {showKinds s'}")
    | none => (s, "bad-op")
  | ["offer_dir", m, n, dr, ex] =>
    match unhx m, unhx n with
    | some m, some n =>
      match offerDirectory s.fs s.args m n (dr == "1") (ex == "1") with
      | (fs', .ok d) => let s' := { s with fs := fs' }; (s', s!"ok {hx d} | {showKinds s'}")
      | (fs', .error e) => let s' := { s with fs := fs' }; (s', s!"{e.name} | {showKinds s'}")
    | _, _ => (s, "bad-op")
  | ["write_file"] =>
    match s.last with
    | some (d, t) =>
      match writeFile s.fs d t with
      | (fs', .ok _) => let s' := { s with fs := fs', last := none }; (s', s!"ok | {showKinds s'}")
      | (fs', .error e) => let s' := { s with fs := fs', last := none }; (s', s!"{e.name} | {showKinds s'}")
    | none => (s, "bad-op")
  | ["recv_file", ans, n, dr] =>
    match unhx ans, unhx n with
    | some ans, some n => drvReceive s { answer := ans, offer := .file n (dr == "1") }
    | _, _ => (s, "bad-op")
  | ["recv_dir", ans, m, n, dr, ex] =>
    match unhx ans, unhx m, unhx n with
    | some ans, some m, some n => drvReceive s { answer := ans, offer := .dir m n (dr == "1") (ex == "1") }
    | _, _, _ => (s, "bad-op")
  | ["guard", d, m] =>
    match unhx d, unhx m with
    | some d, some m =>
      (s, match extractGuard s.args.proc d m with | .ok o => s!"ok {hx o}" | .error e => e.name)
    | _, _ => (s, "bad-op")
  | ["extract", d, m] =>
    match unhx d, unhx m with
    | some d, some m =>
      (s, match extractFile s.args.proc d m with | .ok (t, o) => s!"ok {hx t} {hx o}" | .error e => e.name)
    | _, _ => (s, "bad-op")
  | _ => (s, "bad-op")

def driver (lines : List String) : List String := runLines step drvInit lines

end WV.C05
