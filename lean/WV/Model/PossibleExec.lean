import WV.Model.ClientEnv

/-!
Executable half of `WV.Proofs.Possible` (kept in the precompiled library so that `native_decide`
evaluates it as native code): the backward fixpoint of "a cooperative event leads into the set".
-/
namespace WV.Possible
open WV.Client WV.ClientEnv

def grow (coop : List Event) (L : List Sys) (G : Std.HashSet Sys) : Std.HashSet Sys :=
  L.foldl (fun g s =>
    if g.contains s then g
    else if coop.any (fun e => enabled s e && G.contains (sysStep s e).1) then g.insert s else g) G

def iter (coop : List Event) : Nat → List Sys → Std.HashSet Sys → Std.HashSet Sys
  | 0, _, G => G
  | n + 1, L, G =>
    let G' := grow coop L G
    if G'.size == G.size then G' else iter coop n L G'     -- nothing was added: the fixpoint is reached

/-- every state of `L` that satisfies `src` is in the fixpoint -/
def possibleCert (coop : List Event) (goal src : Sys → Bool) (n : Nat) (L : List Sys) : Bool :=
  let G := iter coop n L (Std.HashSet.ofList (L.filter goal))
  L.all (fun s => !src s || G.contains s)

/-- the states of `L` satisfying `src` that are NOT in the fixpoint (for the search tool) -/
def stuck (coop : List Event) (goal src : Sys → Bool) (n : Nat) (L : List Sys) : List Sys :=
  let G := iter coop n L (Std.HashSet.ofList (L.filter goal))
  L.filter (fun s => src s && !G.contains s)

end WV.Possible

/-! ## C09: the key exchange can always complete -/
namespace WV.Possible
open WV.Client WV.ClientEnv

/-- what a cooperative world does for the key exchange: the connection comes back (possibly after a
    loss), the server greets, answers what it owes and relays what it stores — our own messages (the
    echo that retires them from the pending list) and the messages of the participant who has our code -/
def coopKx : List Event :=
  [.wsOpen, .wsClose, .welcome false, .claimed, .released, .closedResp, .allocated, .nameplates,
   .message .ours .pake true true .good, .message .ours .version true true .good,
   .message .theirs .pake true true .good, .message .theirs .version true true .good]

/-- the exchange is complete: the peer's `version` opened under the key (Boss `S2_happy`), neither our
    PAKE nor our `version` is still waiting for its echo, nothing the application sent is held back in
    `Send`'s queue, and every numbered message handed to the Mailbox has been written to a connection -/
def kxDone (s : Sys) : Bool :=
  s.ctl.b == .S2_happy && !s.env.pendPake && !s.env.pendVersion && !s.ctl.sendQ && (!s.env.pendNum || s.env.srvNum)

/-- the states the claim is made for: a participant with our code exists, the code is known, the
    application has not closed and nothing else has ended the session (no welcome/server error, no
    failed first connection, nothing unusable posted by a stranger waiting in Order's queue or accepted
    in place of the peer's PAKE) -/
def kxSrc (s : Sys) : Bool :=
  s.env.matchKey && s.ctl.c == .S4_known && !s.env.appClosed && !s.env.svcStopped &&
  (s.ctl.b == .S1_lonely || s.ctl.b == .S2_happy) &&
  s.env.peerKey != some false && s.ctl.orderQ.all (·.2) && s.ctl.stashedPake == .good

end WV.Possible
