import WV.Model.Basic
import WV.Gen.T_Manager
import WV.Gen.T_Connector
import WV.Gen.T_Terminator
import WV.Gen.T_DCP
import WV.Gen.T_TrafficTimer
import WV.Gen.Flags
import WV.Gen.Consts

/-!
C17 — Dilation never blocks shutdown; an incapable peer is reported, not awaited.

Model of one side: `_terminator.py` (the generated Terminator table, `stop_dilator`, `B_closed`),
`_dilation/manager.py` (`Dilator.dilate/stop/got_key/got_wormhole_versions/received_dilate`;
`Manager`: the generated table with the bodies of all fourteen outputs, `got_wormhole_versions`,
`fail`, `received_dilation_message`, `connector_connection_made/lost`, `_stop_using_connection`,
`when_stopped`; the ping-timer handle `_timer` with `_send_ping_reset_timer`, the expiry callback and `_signal_reconnect`; of the TrafficTimer the generated `interval_elapsed` rows), `_dilation/connector.py` (generated Connector
table, `start`, `_start_listener`, `_use_hints/_schedule_connection/_connect`, `consider`,
`select_and_stop_remaining`, `stop_everything` and its four parts), `connection.py`
(`DilatedConnectionProtocol`: generated table, `set_manager`, `disconnect`, `connectionLost`),
`subchannel.py` (`SubchannelConnectorEndpoint.connect` up to `yield _main_channel.when_fired()`),
`observer.py` (`OneShotObserver`), `eventual.py` (`EventualQueue`: a FIFO of thunks, one turn at a
time).

The network is part of the state: every listener, outbound attempt and connection the code has
opened, with what the code has told it (`stopListening`, `cancel`, `loseConnection`) and what the
network has reported (`ready`, `lost`).  `gen` is the index of the Connector that opened it.

Python exceptions are values: every function returns the (partially updated) world and the
exception, exactly as far as the Python got.
-/
namespace WV.C17
open WV WV.Gen

inductive Err where
  | noTransition | assertion | attribute | value | onlyOnce | recursion | alreadyCalled | typeError | schedulerStopped
  deriving DecidableEq, Repr

def Err.name : Err → String
  | .noTransition => "NoTransition" | .assertion => "AssertionError" | .attribute => "AttributeError"
  | .value => "ValueError" | .onlyOnce => "CanOnlyDilateOnceError" | .recursion => "model-recursion"
  | .alreadyCalled => "AlreadyCalled" | .typeError => "TypeError"
  | .schedulerStopped => "SchedulerStopped"

/-- a JSON value as `json.loads` delivers it (numbers only as zero / non-zero: nothing here looks
    closer) -/
inductive J where
  | null
  | bool (b : Bool)
  | num (isZero : Bool)
  | str (s : String)
  | arr (xs : List J)
  | obj (kvs : List (String × J))
  deriving Repr

/-- the peer's `versions` message body: whatever JSON the peer sent (Boss only lets a dict through,
    the Dilator itself does not check) -/
abbrev Vers := J

/-- Python truthiness -/
def J.truthy : J → Bool
  | .null => false
  | .bool b => b
  | .num z => !z
  | .str s => s != ""
  | .arr xs => !xs.isEmpty
  | .obj kvs => !kvs.isEmpty

def J.isNull : J → Bool
  | .null => true
  | _ => false

/-- can Python put it into a `set`? -/
def J.hashable : J → Bool
  | .arr _ => false
  | .obj _ => false
  | _ => true

def J.isStr (x : J) (s : String) : Bool :=
  match x with
  | .str t => t == s
  | _ => false

/-- `dict.get(key, default)` on a JSON object (the last duplicate key wins in `json.loads`) -/
def lookupKey (k : String) : List (String × J) → Option J
  | [] => none
  | (k', v) :: r =>
    match lookupKey k r with
    | some x => some x
    | none => if k' == k then some v else none

/-- a decrypted `dilate-N` payload -/
inductive Msg where
  | please (side : String)
  | hints (n : Nat)          -- n direct-tcp hints
  | reconnect
  | reconnecting
  | unknown
  deriving DecidableEq, Repr

/-- the ping-timer handle `Manager._timer`: None, a DelayedCall that is still pending, or one that
    has already fired (`.cancel()` / `.delay()` on it raise AlreadyCalled) -/
inductive Timer where
  | none | pending | fired
  deriving DecidableEq, Repr

/-- `OneShotObserver._result` of `Manager._main_channel` -/
inductive MainRes where
  | noResult | fired | failed
  deriving DecidableEq, Repr

inductive Phase where
  | scheduled | dialing | done
  deriving DecidableEq, Repr

/-- outcome of one `connector_for(x).connect(f)` / `listener_for(x).listen(f)` Deferred -/
inductive WRes where
  | pending | ok
  | failed                      -- errback(OldPeerCannotDilateError)
  | valueError                  -- listen(): "Already listening for subprotocol"
  deriving DecidableEq, Repr

structure Listener where
  gen : Nat
  ready : Bool        -- the endpoint's listen() Deferred has fired
  tracked : Bool      -- port ∈ Connector._listeners
  stopped : Bool      -- stopListening() was called
  deriving DecidableEq, Repr

structure Attempt where
  gen : Nat
  phase : Phase
  cancelled : Bool    -- the code cancelled it before it completed
  inSet : Bool        -- its Deferred ∈ Connector._pending_connectors
  deriving DecidableEq, Repr

structure Conn where
  gen : Nat
  inbound : Bool
  st : DCP.State
  closing : Bool      -- transport.loseConnection() was called
  lost : Bool         -- connectionLost was delivered (`_disconnected` fired)
  tracked : Bool      -- protocol ∈ Connector._pending_connections
  obsDiscard : Bool   -- unfired when_disconnected observer: `_pending_connections.discard`
  obsMgr : Bool       -- unfired when_disconnected observer: `manager.connector_connection_lost`
  deriving DecidableEq, Repr

/-- a producer an application protocol registered on its subchannel (`transport.registerProducer`):
    a push producer as it is, a pull producer wrapped in `PullToPush` (a task of the wormhole's
    Cooperator) -/
structure Prod where
  waiter : Nat        -- the connect() call whose protocol registered it
  pull : Bool
  paused : Bool       -- ∈ `Outbound._paused_producers`
  deriving DecidableEq, Repr

/-- calls sitting in the eventual queue -/
inductive Thunk where
  | accept (g c : Nat)            -- `Connector.accept(c)` of Connector g           (consider)
  | discard (c : Nat)             -- `_pending_connections.discard(c)`
  | mgrLost                       -- `manager.connector_connection_lost()`          (set_manager)
  | stoppedD                      -- `T.stoppedD()`                                 (Dilator.stop)
  | waiter (id : Nat) (ok : Bool) -- a `_main_channel.when_fired()` Deferred fires with None / the Failure
  deriving DecidableEq, Repr

structure World where
  noListen : Bool
  asyncListen : Bool
  mySide : String
  -- Dilator
  called : Bool                   -- `Once._called`
  hasMgr : Bool                   -- `self._manager is not None`
  pKey : Bool                     -- `_pending_dilation_key is not None`
  pVers : Option Vers
  pMsgs : List Msg
  -- Manager
  ms : Manager.State
  key : Bool
  dver : Option String
  role : Option Bool              -- some true = LEADER
  conn : Option Nat               -- `_connection`
  timer : Timer                   -- `_timer`
  tt : Option TrafficTimer.State  -- `_traffic` (Leader only)
  madeFirst : Bool
  main : MainRes
  mainObs : List Nat              -- waiting connect() calls
  fired : Bool                    -- `_stopped` fired
  stoppedObs : Nat                -- waiting `when_stopped()` Deferreds (each calls `T.stoppedD`)
  nextGen : Nat                   -- `_next_dilation_generation`
  ctors : List Connector.State    -- every Connector ever built; `_connector` is the last
  -- network
  listeners : List Listener
  attempts : List Attempt
  conns : List Conn
  -- eventual queue
  queue : List Thunk
  -- Terminator and Boss
  ts : Terminator.State
  closed : Nat                    -- `B.closed()` calls
  waiters : List WRes
  wnames : List (Option String)   -- per waiter: `some name` = a listen() for that subprotocol, `none` = a connect()
  eps : List (Bool × String)      -- endpoint objects the application holds: (is a listener endpoint, subprotocol)
  registered : List String        -- `SubchannelDemultiplex._factories` (names)
  prods : List Prod               -- `Outbound._all_producers` (registration order)
  outPaused : Bool                -- `Outbound._paused` (true until a connection is in use)
  coopStopped : Bool              -- the wormhole's Cooperator has been stopped
  log : List String
  deriving Repr

def World.init (noListen asyncListen : Bool) (mySide : String) : World :=
  { noListen := noListen, asyncListen := asyncListen, mySide := mySide,
    called := false, hasMgr := false, pKey := false, pVers := none, pMsgs := [],
    ms := Manager.init, key := false, dver := none, role := none, conn := none, timer := .none, tt := none,
    madeFirst := false, main := .noResult, mainObs := [], fired := false, stoppedObs := 0, nextGen := 0,
    ctors := [], listeners := [], attempts := [], conns := [], queue := [],
    ts := Terminator.init, closed := 0, waiters := [], wnames := [], eps := [], registered := [], prods := [], outPaused := true, coopStopped := false, log := [] }

abbrev Res := World × Option Err

@[inline] def andThen (r : Res) (f : World → Res) : Res :=
  match r with
  | (w, none) => f w
  | (w, some e) => (w, some e)

def emit (s : String) (w : World) : World := { w with log := w.log ++ [s] }

/-- `Manager.send_dilation_generation(type=…)` → `S.send("dilate-N", …)` -/
def sendGen (ty : String) (w : World) : World :=
  emit s!"send {w.nextGen} {ty}" { w with nextGen := w.nextGen + 1 }

/-- an exception that a Deferred chain ends in `addErrback(log.err)` / `EventualQueue._turn` logs -/
def logged (r : Res) : World :=
  match r with
  | (w, none) => w
  | (w, some e) => emit ("log " ++ e.name) w

/-! ## OneShotObservers -/

/-- `_main_channel.fire(None)` -/
def mainFire (w : World) : Res :=
  if w.main ≠ .noResult then (w, some .assertion) else
  ({ w with main := .fired, queue := w.queue ++ w.mainObs.map (fun i => .waiter i true), mainObs := [] }, none)

/-- `Manager.fail(f)` = `_main_channel.error(f)`: overrides an existing result -/
def mainError (w : World) : World :=
  { w with main := .failed, queue := w.queue ++ w.mainObs.map (fun i => .waiter i false), mainObs := [] }

/-- `notify_stopped`: `_stopped.fire(None)` -/
def notifyStopped (w : World) : Res :=
  if w.fired then (w, some .assertion) else
  ({ w with fired := true, queue := w.queue ++ List.replicate w.stoppedObs .stoppedD, stoppedObs := 0 }, none)

/-- `manager.when_stopped().addCallback(lambda _: self._T.stoppedD())` -/
def whenStopped (w : World) : World :=
  if w.fired then { w with queue := w.queue ++ [.stoppedD] } else { w with stoppedObs := w.stoppedObs + 1 }

/-! ## Connector: the parts of `stop_everything` / `select_and_stop_remaining` -/

def stopListeners (g : Nat) (w : World) : World :=
  { w with listeners := w.listeners.map fun l =>
      if l.gen = g ∧ l.tracked then { l with stopped := true, tracked := false } else l }

/-- `for d in self._pending_connectors: d.cancel()` — a no-op on a Deferred that has completed -/
def stopPendingConnectors (g : Nat) (w : World) : World :=
  { w with attempts := w.attempts.map fun a =>
      if a.gen = g ∧ a.inSet ∧ a.phase ≠ .done then { a with cancelled := true, phase := .done } else a }

/-- `[c.disconnect() for c in self._pending_connections]` -/
def stopPendingConnections (g : Nat) (w : World) : World :=
  { w with conns := w.conns.map fun c => if c.gen = g ∧ c.tracked then { c with closing := true } else c }

def breakCycles (g : Nat) (w : World) : World :=
  { w with listeners := w.listeners.map fun l => if l.gen = g then { l with tracked := false } else l,
           attempts := w.attempts.map fun a => if a.gen = g then { a with inSet := false } else a,
           conns := w.conns.map fun c => if c.gen = g then { c with tracked := false } else c }

def stopEverything (g : Nat) (w : World) : World :=
  breakCycles g (stopPendingConnections g (stopPendingConnectors g (stopListeners g w)))

/-- `DilatedConnectionProtocol.disconnect()` = `transport.loseConnection()` -/
def disconnect (c : Nat) (w : World) : World :=
  { w with conns := w.conns.modify c fun x => { x with closing := true } }

/-- `c.select(manager)`: DCP table; `set_manager` registers (or, if the connection is already
    lost, immediately queues) the `connector_connection_lost` callback -/
def dcpSelect (c : Nat) (w : World) : Res :=
  match w.conns[c]? with
  | none => (w, some .attribute)
  | some x =>
    match DCP.table x.st .select with
    | none => (w, some .noTransition)
    | some (st', outs) =>
      let w1 := { w with conns := w.conns.modify c fun y => { y with st := st' } }
      if outs.contains .set_manager then
        if x.lost then ({ w1 with queue := w1.queue ++ [.mgrLost] }, none)
        else ({ w1 with conns := w1.conns.modify c fun y => { y with obsMgr := true } }, none)
      else (w1, none)

/-- one `@m.output` of Connector `g`; `made` is `manager.connector_connection_made` -/
def cOut (made : Nat → World → Res) (g arg : Nat) (o : Connector.Output) (w : World) : Res :=
  match o with
  | .use_hints =>
    -- `_use_hints`: one `_schedule_connection` per direct hint, each Deferred kept in `_pending_connectors`
    let a : Attempt := { gen := g, phase := .scheduled, cancelled := false, inSet := true }
    ({ w with attempts := w.attempts ++ List.replicate arg a }, none)
  | .publish_hints => (sendGen "connection-hints" w, none)
  | .consider => ({ w with queue := w.queue ++ [.accept g arg] }, none)
  | .select_and_stop_remaining =>
    let w1 := { w with conns := w.conns.modify arg fun x => { x with tracked := false } }
    let w2 := stopPendingConnections g (stopPendingConnectors g (stopListeners g w1))
    andThen (dcpSelect arg w2) (made arg)
  | .stop_everything => (stopEverything g w, none)

def cOuts (made : Nat → World → Res) (g arg : Nat) : List Connector.Output → World → Res
  | [], w => (w, none)
  | o :: os, w => andThen (cOut made g arg o w) (cOuts made g arg os)

/-- an Automat input of Connector `g` -/
def cInput (made : Nat → World → Res) (g : Nat) (i : Connector.Input) (arg : Nat) (w : World) : Res :=
  match w.ctors[g]? with
  | none => (w, some .attribute)
  | some st =>
    match Connector.table st i with
    | none => (w, some .noTransition)
    | some (st', outs) => cOuts made g arg outs { w with ctors := w.ctors.set g st' }

/-- inputs the Manager gives its Connector never reach `connector_connection_made` -/
def noMade : Nat → World → Res := fun _ w => (w, some .recursion)

/-- `Connector.start()`: `_start_listener` unless `no_listen`.  With a synchronous endpoint the
    `_listening` callback runs at once (its exceptions end in `addErrback(log.err)`). -/
def connectorStart (g : Nat) (w : World) : World :=
  if w.noListen then w else
  let sync := !w.asyncListen
  let w1 := { w with listeners := w.listeners ++ [{ gen := g, ready := sync, tracked := sync, stopped := false }] }
  if sync then logged (cInput noMade g .listener_ready 0 w1) else w1

/-- `Manager._start_connecting` -/
def startConnecting (w : World) : Res :=
  if w.role.isNone then (w, some .assertion) else
  if !w.key then (w, some .assertion) else
  let g := w.ctors.length
  (connectorStart g { w with ctors := w.ctors ++ [Connector.init] }, none)

/-- the current `_connector` (AttributeError before the first one exists) -/
def withConnector (w : World) (f : Nat → Res) : Res :=
  match w.ctors.length with
  | 0 => (w, some .attribute)
  | g + 1 => f g

/-! ## Manager -/

/-- `if self._timer is not None: [if self._timer.active():] self._timer.cancel(); self._timer = None` —
    `checksActive` says whether the working tree asks `.active()` first.  Cancelling a DelayedCall
    that has fired raises AlreadyCalled (and the handle stays). -/
def cancelTimer (checksActive : Bool) (w : World) : Res :=
  match w.timer with
  | .fired => if checksActive then ({ w with timer := .none }, none) else (w, some .alreadyCalled)
  | _ => ({ w with timer := .none }, none)

/-- `Manager._send_ping_reset_timer` (TrafficTimer output `begin_timing`): send a Ping, then start
    the interval timer or extend the running one.  Today: `if self._timer is None: callLater(...)
    else: self._timer.delay(...)`; with `ping_timer_checks_active`: `if self._timer is not None and
    self._timer.active(): delay(...) else: callLater(...)`. -/
def beginTiming (w : World) : Res :=
  if Flags.ping_timer_checks_active then ({ w with timer := .pending }, none)
  else match w.timer with
    | .fired => (w, some .alreadyCalled)
    | _ => ({ w with timer := .pending }, none)

/-- `Manager._signal_reconnect` (TrafficTimer output `signal_reconnect`) -/
def signalReconnect (w : World) : World :=
  match w.conn with
  | some c => disconnect c w
  | none => w

def ttOuts : List TrafficTimer.Output → World → Res
  | [], w => (w, none)
  | .begin_timing :: os, w => andThen (beginTiming w) (ttOuts os)
  | .signal_reconnect :: os, w => ttOuts os (signalReconnect w)

def mOut (side : String) (n : Nat) (o : Manager.Output) (w : World) : Res :=
  match o with
  | .send_please =>
    let v := match w.dver with
      | some v => v
      | none => "-"
    (sendGen ("please:" ++ v) w, none)
  | .choose_role =>
    if side < w.mySide then ({ w with role := some true }, none)
    else if w.mySide < side then ({ w with role := some false }, none)
    else (w, some .value)
  | .start_connecting => startConnecting w
  | .start_connecting_ignore_message => startConnecting w
  | .send_reconnect => (sendGen "reconnect" w, none)
  | .send_reconnecting => (sendGen "reconnecting" w, none)
  | .use_hints => withConnector w fun g => cInput noMade g .got_hints n w
  | .stop_connecting => withConnector w fun g => cInput noMade g .k_stop 0 w
  | .abandon_connection =>
    andThen (cancelTimer Flags.abandon_checks_active w) fun w1 =>
    match w1.conn with
    | none => (w1, some .attribute)
    | some c => (disconnect c w1, none)
  | .notify_stopped => notifyStopped w
  | .send_status_connecting => (w, none)
  | .send_status_dilation_generation => (w, none)
  | .send_status_reconnecting => (w, none)
  | .send_status_stopped => (w, none)

def mOuts (side : String) (n : Nat) : List Manager.Output → World → Res
  | [], w => (w, none)
  | o :: os, w => andThen (mOut side n o w) (mOuts side n os)

/-- an Automat input of the Manager: absent row → NoTransition and nothing changes; otherwise
    the new state is set first, then the outputs run in order -/
def mInput (i : Manager.Input) (side : String) (n : Nat) (w : World) : Res :=
  match Manager.table w.ms i with
  | none => (w, some .noTransition)
  | some (s', outs) => mOuts side n outs { w with ms := s' }

/-- the Leader's `self._traffic.got_connection()` (creating the TrafficTimer first if need be):
    `no_connection --got_connection--> connected [begin_timing]`.  Which rows `got_connection` /
    `lost_connection` have is C16's; here they are taken as that row and `… --> no_connection []`. -/
def startPingTimer (w : World) : Res :=
  if w.role = some true then beginTiming { w with tt := some .connected } else (w, none)

/-- `p.pauseProducing()` / `p.resumeProducing()` of a registered producer: for a pull producer this
    is `CooperativeTask.pause()` / `.resume()`, which raise SchedulerStopped once the Cooperator has
    been stopped -/
def touchProducer (p : Prod) (w : World) : Option Err :=
  if p.pull && w.coopStopped then some .schedulerStopped else none

/-- `Outbound.pauseProducing()` (from `stop_using_connection`): every unpaused producer, in order,
    is moved to the paused set and told to pause; an exception stops the loop -/
def pauseLoop : List Prod → List Prod → World → Res
  | done, [], w => ({ w with prods := done }, none)
  | done, p :: rest, w =>
    if p.paused then pauseLoop (done ++ [p]) rest w
    else match touchProducer p w with
      | some e => ({ w with prods := done ++ [{ p with paused := true }] ++ rest }, some e)
      | none => pauseLoop (done ++ [{ p with paused := true }]) rest w

def pauseAll (w : World) : Res :=
  if w.outPaused then (w, none) else pauseLoop [] w.prods { w with outPaused := true }

/-- `Outbound.resumeProducing()` (from `use_connection`; the transport never pushes back here):
    every paused producer, in order, is moved to the unpaused set and told to resume -/
def resumeLoop : List Prod → List Prod → World → Res
  | done, [], w => ({ w with prods := done }, none)
  | done, p :: rest, w =>
    if !p.paused then resumeLoop (done ++ [p]) rest w
    else match touchProducer p w with
      | some e => ({ w with prods := done ++ [{ p with paused := false }] ++ rest }, some e)
      | none => resumeLoop (done ++ [{ p with paused := false }]) rest w

def resumeAll (w : World) : Res :=
  if !w.outPaused then (w, none) else resumeLoop [] w.prods { w with outPaused := false }

/-- the end of `connector_connection_made`: remember the connection, hand it to Outbound
    (`use_connection` → `resumeProducing`), fire `_main_channel` once -/
def useConnection (c : Nat) (w : World) : Res :=
  andThen (resumeAll { w with conn := some c }) fun w3 =>
  if w3.madeFirst then (w3, none) else mainFire { w3 with madeFirst := true }

/-- `Manager.connector_connection_made(c)` -/
def connectionMade (c : Nat) (w : World) : Res :=
  andThen (startPingTimer w) fun w1 =>
  andThen (mInput .connection_made "" 0 w1) (useConnection c)

/-- `Manager.connector_connection_lost()` -/
def connectionLost (w : World) : Res :=
  -- `self._traffic.lost_connection()`, then `_stop_using_connection`: cancel the timer, forget the
  -- connection; `Outbound.stop_using_connection` dereferences its own `_connection`
  let w0 := { w with tt := w.tt.map fun _ => TrafficTimer.State.no_connection }
  andThen (cancelTimer Flags.stop_using_checks_active w0) fun w1 =>
  let w2 := { w1 with conn := none }
  if w.conn.isNone then (w2, some .attribute) else
  -- `Outbound.stop_using_connection()` → `pauseProducing()`: an exception here aborts
  -- `connector_connection_lost` before the machine is told
  andThen (pauseAll w2) fun w3 =>
  if w3.role = some true then mInput .connection_lost_leader "" 0 w3
  else mInput .connection_lost_follower "" 0 w3

/-- `_find_shared_versions(my, their)`.  Today: anything that is not a list counts as `[]`
    (`shared_versions_requires_list`) and only the str entries go into the set
    (`shared_versions_filters_strings`); the first of ours that is among them.  Without these two
    guards the code does `set(their)`: TypeError if `their` is not iterable or holds a list / dict;
    a str iterates as its characters, a dict as its keys. -/
def findShared (my : List String) (their : J) : Except Err (Option String) :=
  let their' : J := if Flags.shared_versions_requires_list then
      (match their with
       | .arr xs => .arr xs
       | _ => .arr [])
    else their
  match their' with
  | .arr xs =>
    if Flags.shared_versions_filters_strings || xs.all J.hashable then .ok (my.find? fun v => xs.any (·.isStr v))
    else .error .typeError
  | .str s => .ok (my.find? fun v => v.length == 1 && s.toList.any fun c => String.singleton c == v)
  | .obj kvs => .ok (my.find? fun v => kvs.any fun kv => kv.1 == v)
  | _ => .error .typeError

/-- `_find_shared_versions(self._acceptable_versions, their_wormhole_versions.get("can-dilate", []))` -/
def sharedVersion (v : Vers) : Except Err (Option String) :=
  match v with
  | .obj kvs =>
    match lookupKey "can-dilate" kvs with
    | some c => findShared Consts.DILATION_VERSIONS c
    | none => findShared Consts.DILATION_VERSIONS (.arr [])
  | _ => .error .attribute        -- `.get` on something that is not a dict

/-- Python's `not self._dilation_version` ("ged" or None; the empty string is falsy too) -/
def falsy : Option String → Bool
  | none => true
  | some s => s == ""

/-- the rest of `Manager.got_wormhole_versions` once the shared version is known -/
def mgrGotVersionsWith (dv : Option String) (w : World) : Res :=
  let w1 := { w with dver := dv }
  let w2 := if falsy dv then mainError w1 else w1
  mInput .start "" 0 w2

/-- `Manager.got_wormhole_versions(v)`; an exception in `_find_shared_versions` leaves everything as
    it was (nothing is reported to anybody) -/
def mgrGotVersions (v : Vers) (w : World) : Res :=
  match sharedVersion v with
  | .error e => (w, some e)
  | .ok dv => mgrGotVersionsWith dv w

/-- `Manager.received_dilation_message(plaintext)` -/
def receivedMsg (m : Msg) (w : World) : Res :=
  match m with
  | .please side => mInput .rx_PLEASE side 0 w
  | .hints n => mInput .rx_HINTS "" n w
  | .reconnect => mInput .rx_RECONNECT "" 0 w
  | .reconnecting => mInput .rx_RECONNECTING "" 0 w
  | .unknown => (emit "log UnknownDilationMessageType" w, none)

/-! ## Dilator -/

/-- `while self._pending_inbound_dilate_messages: m.received_dilation_message(popleft())` -/
def drainMsgs : List Msg → World → Res
  | [], w => ({ w with pMsgs := [] }, none)
  | m :: rest, w => andThen (receivedMsg m { w with pMsgs := rest }) (drainMsgs rest)

/-- the guard of the pending-versions replay in `Dilator.dilate`, as written in the working tree -/
def replayVersions? (pv : Option Vers) : Option Vers :=
  if Flags.pending_versions_guard_is_not_none then pv
  else match pv with
    | some v => if v.truthy then some v else none
    | none => none

/-- `if self._pending_dilation_key is not None: m.got_dilation_key(...)` -/
def replayKey (w : World) : World := if w.pKey then { w with key := true } else w

/-- `if <guard on self._pending_wormhole_versions>: m.got_wormhole_versions(...)` -/
def replayVersions (w : World) : Res :=
  match replayVersions? w.pVers with
  | some v => mgrGotVersions v w
  | none => (w, none)

/-- `Dilator.dilate()` -/
def dilate (w : World) : Res :=
  if w.called then (w, some .onlyOnce) else
  let w0 := { w with called := true }
  if w0.hasMgr then (w0, none) else
  andThen (replayVersions (replayKey { w0 with hasMgr := true })) fun w3 => drainMsgs w3.pMsgs w3

def gotKey (w : World) : World :=
  if w.hasMgr then { w with key := true } else { w with pKey := true }

def gotVersions (v : Vers) (w : World) : Res :=
  if w.hasMgr then mgrGotVersions v w
  else ({ w with pVers := if v.isNull then none else some v }, none)   -- JSON null is Python's None

def receivedDilate (m : Msg) (w : World) : Res :=
  if w.hasMgr then receivedMsg m w else ({ w with pMsgs := w.pMsgs ++ [m] }, none)

/-- `SubchannelConnectorEndpoint.connect(f)` (`nm = none`) / `SubchannelListenerEndpoint.listen(f)`
    (`nm = some subprotocol`): every call waits on `Manager._main_channel` itself — the endpoint
    object keeps no state of its own -/
def connectAs (nm : Option String) (w : World) : World :=
  let id := w.waiters.length
  let w1 := { w with waiters := w.waiters ++ [WRes.pending], wnames := w.wnames ++ [nm] }
  match w1.main with
  | .noResult => { w1 with mainObs := w1.mainObs ++ [id] }
  | .fired => { w1 with queue := w1.queue ++ [Thunk.waiter id true] }
  | .failed => { w1 with queue := w1.queue ++ [Thunk.waiter id false] }

/-- `DilatedWormhole.connector_for(x).connect(f)` on a fresh endpoint -/
def connect (w : World) : World := connectAs none w

/-- the `when_fired()` Deferred of waiter `id` fires: with the Failure the call fails; with None a
    connect() goes on to open its subchannel (C13) and a listen() registers its factory
    (`SubchannelDemultiplex.register`: ValueError if the name is taken) -/
def resolveWaiter (id : Nat) (ok : Bool) (w : World) : World :=
  if !ok then { w with waiters := w.waiters.set id .failed } else
  match w.wnames[id]? with
  | some (some name) =>
    if w.registered.contains name then { w with waiters := w.waiters.set id .valueError }
    else { w with waiters := w.waiters.set id .ok, registered := w.registered ++ [name] }
  | _ => { w with waiters := w.waiters.set id .ok }

/-! ## Terminator -/

def tOuts (k : Terminator.Output → World → Res) : List Terminator.Output → World → Res
  | [], w => (w, none)
  | o :: os, w => andThen (k o w) (tOuts k os)

/-- what `Dilator.stop()` does to the wormhole's Cooperator before anything else: today nothing;
    `dilator_stop_stops_cooperator` (generated from the source) says whether it calls
    `self._cooperator.stop()` -/
def stopCoop (w : World) : World :=
  if Flags.dilator_stop_stops_cooperator then { w with coopStopped := true } else w

/-- `sc.registerProducer(producer, streaming)` by the protocol of connect() call `i`
    (`Outbound.subchannel_registerProducer`): appended to `_all_producers`, paused iff Outbound is;
    a pull producer is wrapped in `PullToPush` and started as a task of the Cooperator
    (`startStreaming(paused)` pauses it at once if Outbound is paused) -/
def registerProducer (i : Nat) (pull : Bool) (w : World) : Res :=
  let p : Prod := { waiter := i, pull := pull, paused := w.outPaused }
  let w1 := { w with prods := w.prods ++ [p] }
  if pull && w.outPaused then
    (match touchProducer p w1 with
     | some e => (w1, some e)
     | none => (w1, none))
  else (w1, none)

/-- an Automat input of the Terminator.  `stop_dilator` calls `Dilator.stop`, which (without a
    Manager) calls `T.stoppedD()` re-entrantly: `fuel` bounds that nesting (`termFuel` = 3 is enough: by
    `Props.C17.stop_from_every_state` the call returns normally). -/
def tInput : Nat → Terminator.Input → World → Res
  | 0, _, w => (w, some .recursion)
  | fuel + 1, i, w =>
    match Terminator.table w.ts i with
    | none => (w, some .noTransition)
    | some (s', outs) =>
      tOuts (fun o w =>
        match o with
        | .close_nameplate => (emit "N.close" w, none)
        | .close_mailbox => (emit "M.close" w, none)
        | .RC_stop => (emit "RC.stop" w, none)
        | .ignore_mood_and_RC_stop => (emit "RC.stop" w, none)
        | .B_closed => (emit "B.closed" { w with closed := w.closed + 1 }, none)
        | .stop_dilator =>
          -- Dilator.stop()
          if (stopCoop w).hasMgr then
            andThen (mInput .k_stop "" 0 (stopCoop w)) fun w1 => (whenStopped w1, none)
          else tInput fuel .stoppedD (stopCoop w)) outs { w with ts := s' }

def termFuel : Nat := 3

/-! ## the eventual queue -/

def runThunk (t : Thunk) (w : World) : World :=
  match t with
  | .accept g c => logged (cInput connectionMade g .accept c w)       -- a plain call: `_turn` logs what it raises
  | .discard c => { w with conns := w.conns.modify c fun x => { x with tracked := false } }
  | .mgrLost => (connectionLost w).1                                  -- inside a Deferred: the Failure stays there
  | .stoppedD => (tInput termFuel .stoppedD w).1
  | .waiter id ok => resolveWaiter id ok w

def runThunks : List Thunk → World → World
  | [], w => w
  | t :: ts, w => runThunks ts (runThunk t w)

/-- one `EventualQueue._turn`: the calls queued so far; what they queue runs next turn -/
def turn (w : World) : World := runThunks w.queue { w with queue := [] }

/-! ## events -/

inductive Ev where
  | dilate | key | versions (v : Vers) | msg (m : Msg) | connect
  | ep (listener : Bool) (name : String)   -- `api.listener_for(name)` / `api.connector_for(name)`: keep the endpoint
  | econnect (k : Nat)                     -- `.connect(f)` on held endpoint k
  | elisten (k : Nat)                      -- `.listen(f)` on held endpoint k
  | producer (pull : Bool) (i : Nat)       -- the protocol of connect() call i registers a producer on its subchannel
  | term (i : Terminator.Input)
  | turn
  | expire                  -- the ping interval is over: the pending DelayedCall `_timer` fires
  | lready (k : Nat)        -- the listen() Deferred of listener k fires (asynchronous endpoints only)
  | inbound (k : Nat)       -- the peer connects to listener k
  | dial (j : Nat)          -- attempt j's delay is over: `_connect` calls `ep.connect`
  | dialok (j : Nat)
  | dialfail (j : Nat)
  | kcm (c : Nat)           -- the peer's prologue + handshake + KCM arrive on connection c
  | lost (c : Nat)          -- the network reports connection c lost
  deriving Repr

inductive Out where
  | done
  | raised (e : Err)
  | refused (why : String)    -- the environment cannot do this now (nothing happened)
  deriving DecidableEq, Repr

def ofRes (r : Res) : World × Out :=
  match r with
  | (w, none) => (w, .done)
  | (w, some e) => (w, .raised e)

def step (w : World) : Ev → World × Out
  | .dilate => ofRes (dilate w)
  | .key => (gotKey w, .done)
  | .versions v => ofRes (gotVersions v w)
  | .msg m => ofRes (receivedDilate m w)
  | .connect => if w.hasMgr then (connect w, .done) else (w, .refused "no-api")
  | .ep l name => if w.hasMgr then ({ w with eps := w.eps ++ [(l, name)] }, .done) else (w, .refused "no-api")
  | .econnect k =>
    match w.eps[k]? with
    | none => (w, .refused "no-such")
    | some (l, _) => if l then (w, .refused "not-connector") else (connectAs none w, .done)
  | .elisten k =>
    match w.eps[k]? with
    | none => (w, .refused "no-such")
    | some (l, name) => if l then (connectAs (some name) w, .done) else (w, .refused "not-listener")
  | .producer pull i =>
    match w.waiters[i]?, w.wnames[i]? with
    | some .ok, some none =>
      if w.prods.any (·.waiter == i) then (w, .refused "has-producer") else ofRes (registerProducer i pull w)
    | _, _ => (w, .refused "no-protocol")
  | .term i => ofRes (tInput termFuel i w)
  | .turn => (turn w, .done)
  | .expire =>
    if w.timer ≠ .pending then (w, .refused "no-timer") else
    -- the callback: today it clears the handle first; then `self._traffic.interval_elapsed()`
    let w1 := { w with timer := if Flags.timer_expiry_clears_handle then Timer.none else Timer.fired }
    match w1.tt with
    | none => (w1, .done)
    | some st =>
      match TrafficTimer.table st .interval_elapsed with
      | none => (w1, .raised .noTransition)
      | some (st', outs) => ofRes (ttOuts outs { w1 with tt := some st' })
  | .lready k =>
    match w.listeners[k]? with
    | none => (w, .refused "no-such")
    | some l =>
      if l.ready then (w, .refused "already") else
      let w1 := { w with listeners := w.listeners.modify k fun x => { x with ready := true, tracked := true } }
      (logged (cInput noMade l.gen .listener_ready 0 w1), .done)
  | .inbound k =>
    match w.listeners[k]? with
    | none => (w, .refused "no-such")
    | some l =>
      if !l.ready || l.stopped then (w, .refused "refused") else
      ({ w with conns := w.conns ++ [{ gen := l.gen, inbound := true, st := DCP.init, closing := false, lost := false,
                                       tracked := false, obsDiscard := false, obsMgr := false }] }, .done)
  | .dial j =>
    match w.attempts[j]? with
    | none => (w, .refused "no-such")
    | some a =>
      if a.phase ≠ .scheduled then (w, .refused "not-scheduled") else
      ({ w with attempts := w.attempts.modify j fun x => { x with phase := .dialing } }, .done)
  | .dialok j =>
    match w.attempts[j]? with
    | none => (w, .refused "no-such")
    | some a =>
      if a.phase ≠ .dialing then (w, .refused "not-dialing") else
      -- `_connected(p)`: `_pending_connections.add(p)`; `p.when_disconnected().addCallback(discard)`
      ({ w with attempts := w.attempts.modify j fun x => { x with phase := .done },
                conns := w.conns ++ [{ gen := a.gen, inbound := false, st := DCP.init, closing := false, lost := false,
                                       tracked := true, obsDiscard := true, obsMgr := false }] }, .done)
  | .dialfail j =>
    match w.attempts[j]? with
    | none => (w, .refused "no-such")
    | some a =>
      if a.phase ≠ .dialing then (w, .refused "not-dialing") else
      ({ w with attempts := w.attempts.modify j fun x => { x with phase := .done } }, .done)
  | .kcm c =>
    match w.conns[c]? with
    | none => (w, .refused "no-such")
    | some x =>
      if x.lost then (w, .refused "gone") else
      if x.st ≠ DCP.init then (w, .refused "dup") else
      match DCP.table x.st .got_kcm with
      | none => (w, .raised .noTransition)
      | some (st', outs) =>
        let w1 := { w with conns := w.conns.modify c fun y => { y with st := st' } }
        if outs.contains .add_candidate then ofRes (cInput connectionMade x.gen .add_candidate c w1)
        else (w1, .done)
  | .lost c =>
    match w.conns[c]? with
    | none => (w, .refused "no-such")
    | some x =>
      if x.lost then (w, .refused "gone") else
      let q1 := if x.obsDiscard then [Thunk.discard c] else []
      let q2 := if x.obsMgr then [Thunk.mgrLost] else []
      ({ w with conns := w.conns.modify c fun y => { y with lost := true, obsDiscard := false, obsMgr := false },
                queue := w.queue ++ q1 ++ q2 }, .done)

def run (w : World) : List Ev → World
  | [] => w
  | e :: es => run (step w e).1 es

/-- cooperative completion of the network: every connection the code has asked to close (and that
    is not yet reported lost) is reported lost, in index order -/
def loseClosing : List Nat → World → World
  | [], w => w
  | c :: cs, w =>
    loseClosing cs (match w.conns[c]? with
      | some x => if x.closing && !x.lost then (step w (.lost c)).1 else w
      | none => w)

/-- cooperative completion: the network reports the closed connections lost, then the eventual
    queue runs two turns -/
def settle (w : World) : World := turn (turn (loseClosing (List.range w.conns.length) w))

/-! ## driver (line protocol)

```
new <nolisten 0|1> <async 0|1>
dilate | key | versions full|nocan|empty|disjoint|emptylist|both | connect | turn
ep c|l <name> | econnect k | elisten k          (endpoint objects held by the application)
msg please <side> | msg hints <n> | msg reconnect | msg reconnecting | msg unknown
t close|nameplate_done|mailbox_done|stoppedRC|stoppedD
lready k | inbound k | dial j | dialok j | dialfail j | kcm c | lost c
```
Output: what the step told its collaborators (`send …`, `N.close`, `B.closed`, `log <Exc>`), the
exception raised to the caller if any, then ` | ` and the state summary.  A refused operation
prints only its reason.
-/

def MY_SIDE : String := "8000000000000000"

def b01 (b : Bool) : String := if b then "1" else "0"
def flag (b : Bool) (c : String) : String := if b then c else "-"

def showTimer : Timer → String
  | .none => "none" | .pending => "pending" | .fired => "fired"

def showTT : Option TrafficTimer.State → String
  | some s => TrafficTimer.State.name s
  | none => "-"

def showProd (p : Prod) : String :=
  s!"{p.waiter}:{if p.pull then "pull" else "push"}:{if p.paused then "p" else "u"}"

def showMain : MainRes → String
  | .noResult => "none" | .fired => "ok" | .failed => "err"

def showW : WRes → String
  | .pending => "pending" | .ok => "ok" | .failed => "err:OldPeerCannotDilateError" | .valueError => "err:ValueError"

def showPhase : Phase → String
  | .scheduled => "s" | .dialing => "d" | .done => "x"

def showCtor (w : World) (g : Nat) (st : Connector.State) : String :=
  let ls := (w.listeners.filter (·.gen == g)).map fun l => flag l.ready "r" ++ flag l.tracked "t" ++ flag l.stopped "s"
  let as := (w.attempts.filter (·.gen == g)).map fun a => showPhase a.phase ++ flag a.cancelled "c" ++ flag a.inSet "t"
  let xs := (w.conns.filter (·.gen == g)).map fun x =>
    (if x.inbound then "i" else "o") ++ ":" ++ DCP.State.name x.st ++ ":" ++ flag x.closing "c" ++ flag x.lost "l" ++ flag x.tracked "t"
  s!"{Connector.State.name st} L[{" ".intercalate ls}] A[{" ".intercalate as}] X[{" ".intercalate xs}]"

def enumFrom {α : Type} : Nat → List α → List (Nat × α)
  | _, [] => []
  | n, x :: r => (n, x) :: enumFrom (n + 1) r

def showWorld (w : World) : String :=
  let mgr := if w.hasMgr then
      let role := match w.role with
        | some true => "L" | some false => "F" | none => "-"
      let conn := match w.conn with
        | some c => toString c | none => "-"
      let ver := match w.dver with
        | some v => v | none => "-"
      s!"M={Manager.State.name w.ms} key={b01 w.key} ver={ver} role={role} conn={conn} timer={showTimer w.timer} tt={showTT w.tt} main={showMain w.main} fired={b01 w.fired}"
    else "M=- key=0 ver=- role=- conn=- timer=none tt=- main=- fired=0"
  let cs := (enumFrom 0 w.ctors).map fun (g, st) => showCtor w g st
  s!"{mgr} T={Terminator.State.name w.ts} closed={w.closed} D={b01 w.pKey}{b01 w.pVers.isSome}{w.pMsgs.length} W=[{" ".intercalate (w.waiters.map showW)}] E={w.eps.length} R=[{" ".intercalate w.registered}] P=[{" ".intercalate (w.prods.map showProd)}] out={if w.outPaused then "paused" else "running"} coop={b01 w.coopStopped} C=[{" | ".intercalate cs}]"

def canDilate (l : List String) : Vers := .obj [("can-dilate", .arr (l.map .str)), ("app_versions", .obj [])]

def readVers? : String → Option Vers
  | "full" => some (canDilate ["ged"])
  | "nocan" => some (.obj [("app_versions", .obj [])])
  | "empty" => some (.obj [])
  | "disjoint" => some (.obj [("can-dilate", .arr [.str "vetch"])])
  | "emptylist" => some (.obj [("can-dilate", .arr [])])
  | "both" => some (.obj [("can-dilate", .arr [.str "vetch", .str "ged"])])
  | _ => none

def tail1 (t : String) : String := String.ofList (t.toList.drop 1)

/-- JSON in prefix tokens: `N` `T` `F` `I0` (zero) `I1` (non-zero number) `S<hex>` `A<n> v…` `O<n> S<hex> v …` -/
def readJ : Nat → List String → Option (J × List String)
  | 0, _ => none
  | fuel + 1, t :: ts =>
    if t == "N" then some (.null, ts)
    else if t == "T" then some (.bool true, ts)
    else if t == "F" then some (.bool false, ts)
    else if t == "I0" then some (.num true, ts)
    else if t == "I1" then some (.num false, ts)
    else if t.startsWith "S" then (strOfHex? (tail1 t)).map fun s => (.str s, ts)
    else if t.startsWith "A" then
      (tail1 t).toNat?.bind fun n => (readJs fuel n ts).map fun (xs, r) => (.arr xs, r)
    else if t.startsWith "O" then
      (tail1 t).toNat?.bind fun n => (readKVs fuel n ts).map fun (kvs, r) => (.obj kvs, r)
    else none
  | _, [] => none
where
  readJs : Nat → Nat → List String → Option (List J × List String)
    | _, 0, ts => some ([], ts)
    | 0, _, _ => none
    | fuel + 1, n + 1, ts =>
      (readJ fuel ts).bind fun (x, r) => (readJs fuel n r).map fun (xs, r') => (x :: xs, r')
  readKVs : Nat → Nat → List String → Option (List (String × J) × List String)
    | _, 0, ts => some ([], ts)
    | 0, _, _ => none
    | fuel + 1, n + 1, ts =>
      match ts with
      | k :: r0 =>
        if k.startsWith "S" then
          (strOfHex? (tail1 k)).bind fun key =>
            (readJ fuel r0).bind fun (x, r) => (readKVs fuel n r).map fun (kvs, r') => ((key, x) :: kvs, r')
        else none
      | [] => none

def readEv? : List String → Option Ev
  | ["dilate"] => some .dilate
  | ["key"] => some .key
  | ["versions", v] => (readVers? v).map .versions
  | "versions" :: "j" :: ts =>
    match readJ (2 * ts.length + 2) ts with
    | some (v, []) => some (.versions v)
    | _ => none
  | ["msg", "please", s] => some (.msg (.please s))
  | ["msg", "hints", n] => n.toNat?.map fun k => .msg (.hints k)
  | ["msg", "reconnect"] => some (.msg .reconnect)
  | ["msg", "reconnecting"] => some (.msg .reconnecting)
  | ["msg", "unknown"] => some (.msg .unknown)
  | ["connect"] => some .connect
  | ["ep", "c", n] => some (.ep false n)
  | ["ep", "l", n] => some (.ep true n)
  | ["econnect", k] => k.toNat?.map .econnect
  | ["producer", "pull", i] => i.toNat?.map (.producer true)
  | ["producer", "push", i] => i.toNat?.map (.producer false)
  | ["elisten", k] => k.toNat?.map .elisten
  | ["turn"] => some .turn
  | ["expire"] => some .expire
  | ["t", i] => (Terminator.Input.ofName? i).map .term
  | ["lready", k] => k.toNat?.map .lready
  | ["inbound", k] => k.toNat?.map .inbound
  | ["dial", k] => k.toNat?.map .dial
  | ["dialok", k] => k.toNat?.map .dialok
  | ["dialfail", k] => k.toNat?.map .dialfail
  | ["kcm", k] => k.toNat?.map .kcm
  | ["lost", k] => k.toNat?.map .lost
  | _ => none

def drvInit : World := World.init false false MY_SIDE

def dstep (w : World) (line : String) : World × String :=
  match tokens line with
  | ["reset"] => (drvInit, "ok")
  | ["new", nl, al] => (World.init (nl == "1") (al == "1") MY_SIDE, "ok")
  | ts =>
    match readEv? ts with
    | none => (w, "bad-op")
    | some e =>
      let w0 := { w with log := [] }
      let (w1, out) := step w0 e
      match out with
      | .refused why => (w1, why)
      | .done => (w1, "; ".intercalate w1.log ++ " | " ++ showWorld w1)
      | .raised er => (w1, "; ".intercalate (w1.log ++ [er.name]) ++ " | " ++ showWorld w1)

def driver (lines : List String) : List String := runLines dstep drvInit lines

end WV.C17
