import WV.Model.Basic
import WV.Gen.T_Framer
import WV.Gen.T_Record
import WV.Gen.T_DCP
import WV.Gen.Consts

/-!
C12 — Dilation L2 framing / encryption / encoding.

Model of `src/wormhole/_dilation/encode.py` (`to_be4`, `from_be4`),
`connection.py` (`encode_record`, `parse_record`, `_Framer`, `_Record`,
`DilatedConnectionProtocol.dataReceived`).  The three Automat tables are the
*generated* ones; this file gives the output bodies.
-/
namespace WV.C12
open WV WV.Gen

/-! ## be4 -/

/-- `to_be4`: `none` = `ValueError` (value outside `0 ≤ v < 2**32`) -/
def toBe4 (n : Nat) : Option Bytes :=
  if n < 4294967296 then
    some [n / 16777216 % 256, n / 65536 % 256, n / 256 % 256, n % 256]
  else none

/-- `from_be4`: `none` = `ValueError` (length ≠ 4) -/
def fromBe4 : Bytes → Option Nat
  | [a, b, c, d] => some (a * 16777216 + b * 65536 + c * 256 + d)
  | _ => none

/-! ## records -/

/-- the seven record types; `sub` is the subprotocol name as its UTF-8 encoding -/
inductive Rec where
  | kcm
  | ping (id : Bytes)
  | pong (id : Bytes)
  | opn (seqnum scid : Nat) (sub : Bytes)
  | data (seqnum scid : Nat) (d : Bytes)
  | close (seqnum scid : Nat)
  | ack (resp : Nat)
  deriving DecidableEq, Repr

inductive Err where
  | valueError      -- to_be4 / from_be4 / unknown record type
  | unicodeError    -- str(bytes, "utf8") on invalid UTF-8
  | disconnect      -- `Disconnect`: the connection is dropped
  | noTransition    -- Automat: input not declared in this state
  | assertion
  deriving DecidableEq, Repr

def Err.name : Err → String
  | .valueError => "ValueError" | .unicodeError => "UnicodeDecodeError"
  | .disconnect => "Disconnect" | .noTransition => "NoTransition" | .assertion => "AssertionError"

/-- `encode_record`; `none` = `ValueError` raised by `to_be4` -/
def encodeRecord : Rec → Option Bytes
  | .kcm => some [Consts.T_KCM]
  | .ping id => some (Consts.T_PING :: id)
  | .pong id => some (Consts.T_PONG :: id)
  | .opn seqnum scid sub => do
      let a ← toBe4 scid
      let b ← toBe4 seqnum
      pure (Consts.T_OPEN :: (a ++ b ++ sub))
  | .data seqnum scid d => do
      let a ← toBe4 scid
      let b ← toBe4 seqnum
      pure (Consts.T_DATA :: (a ++ b ++ d))
  | .close seqnum scid => do
      let a ← toBe4 scid
      let b ← toBe4 seqnum
      pure (Consts.T_CLOSE :: (a ++ b))
  | .ack r => do
      let a ← toBe4 r
      pure (Consts.T_ACK :: a)

def be4At (pt : Bytes) (off : Nat) : Except Err Nat :=
  match fromBe4 ((pt.drop off).take 4) with
  | some n => .ok n
  | none => .error .valueError

/-- `parse_record`, parameterised by the UTF-8 validity predicate used by `str(b, "utf8")` -/
def parseRecord (validUtf8 : Bytes → Bool) (pt : Bytes) : Except Err Rec :=
  match pt with
  | [] => .error .valueError
  | t :: _ =>
    if t = Consts.T_KCM then .ok .kcm
    else if t = Consts.T_PING then .ok (.ping ((pt.drop 1).take 4))
    else if t = Consts.T_PONG then .ok (.pong ((pt.drop 1).take 4))
    else if t = Consts.T_OPEN then do
      let scid ← be4At pt 1
      let seqnum ← be4At pt 5
      let sub := pt.drop 9
      if validUtf8 sub then .ok (.opn seqnum scid sub) else .error .unicodeError
    else if t = Consts.T_DATA then do
      let scid ← be4At pt 1
      let seqnum ← be4At pt 5
      .ok (.data seqnum scid (pt.drop 9))
    else if t = Consts.T_CLOSE then do
      let scid ← be4At pt 1
      let seqnum ← be4At pt 5
      .ok (.close seqnum scid)
    else if t = Consts.T_ACK then do
      let r ← be4At pt 1
      .ok (.ack r)
    else .error .valueError

/-- what `encode_record`∘`parse_record` can round-trip: 32-bit fields, 4-byte ping ids,
    subprotocol a real `str` (valid UTF-8) -/
def Rec.wf (validUtf8 : Bytes → Bool) : Rec → Prop
  | .kcm => True
  | .ping id => id.length = 4
  | .pong id => id.length = 4
  | .opn s c sub => s < 4294967296 ∧ c < 4294967296 ∧ validUtf8 sub = true
  | .data s c _ => s < 4294967296 ∧ c < 4294967296
  | .close s c => s < 4294967296 ∧ c < 4294967296
  | .ack r => r < 4294967296

/-! ## Noise as an interface -/

/-- One direction of an established Noise transport: a nonce-indexed AEAD.  The ideal
    properties are hypotheses of the theorems (`Noise.Ideal`), never axioms. -/
structure Noise where
  enc : Nat → Bytes → Bytes
  dec : Nat → Bytes → Option Bytes

structure Noise.Ideal (N : Noise) : Prop where
  dec_enc : ∀ n m, N.dec n (N.enc n m) = some m
  len_enc : ∀ n m, (N.enc n m).length = m.length + 16
  /-- authenticity: only the honest ciphertext for this nonce opens -/
  auth : ∀ n c m, N.dec n c = some m → c = N.enc n m

/-- split into pieces of `k` bytes (the `while start < len(x)` loops); fuel = length -/
def chunksOf (k : Nat) : Nat → Bytes → List Bytes
  | 0, _ => []
  | fuel + 1, m => if m.isEmpty then [] else m.take k :: chunksOf k fuel (m.drop k)

/-- encrypt pieces with successive nonces and concatenate -/
def encChunks (N : Noise) : Nat → List Bytes → Bytes × Nat
  | n, [] => ([], n)
  | n, c :: cs => let (r, n') := encChunks N (n + 1) cs; (N.enc n c ++ r, n')

/-- the frame body `_Record.send_record` builds for an encoded message -/
def sealMessage (N : Noise) (n : Nat) (msg : Bytes) : Bytes × Nat :=
  if msg.length ≤ Consts.NOISE_MAX_PAYLOAD then (N.enc n msg, n + 1)
  else encChunks N n (chunksOf Consts.NOISE_MAX_PAYLOAD msg.length msg)

def decChunks (N : Noise) : Nat → List Bytes → Option (Bytes × Nat)
  | n, [] => some ([], n)
  | n, c :: cs => do
      let p ← N.dec n c
      let (r, n') ← decChunks N (n + 1) cs
      pure (p ++ r, n')

/-- the plaintext `_Record.decrypt_message` recovers from a frame body; `none` = `Disconnect` -/
def openMessage (N : Noise) (n : Nat) (frame : Bytes) : Option (Bytes × Nat) :=
  if frame.length ≤ Consts.NOISE_MAX_CIPHERTEXT then
    (N.dec n frame).map (fun p => (p, n + 1))
  else decChunks N n (chunksOf Consts.NOISE_MAX_CIPHERTEXT frame.length frame)

/-- `_Framer.send_frame` -/
def frameBytes (body : Bytes) : Option Bytes := do
  let l ← toBe4 body.length
  pure (l ++ body)

/-- `_Record.send_record`: bytes put on the wire for one record -/
def sendRecord (N : Noise) (n : Nat) (r : Rec) : Option (Bytes × Nat) := do
  let msg ← encodeRecord r
  let (body, n') := sealMessage N n msg
  let fr ← frameBytes body
  pure (fr, n')

/-! ## `_Framer` -/

inductive Token where
  | relayOK | prologue | frame (f : Bytes)
  deriving DecidableEq, Repr

/-- `_get_expected`: `.error` = `Disconnect`; `(true, rest)` = consumed -/
def getExpected (buf expected : Bytes) : Except Err (Bool × Bytes) :=
  if expected.isPrefixOf buf then .ok (true, buf.drop expected.length)
  else if !(buf.isPrefixOf expected) then
    if buf.contains 10 || expected.length ≤ buf.length then .error .disconnect
    else .ok (false, buf)
  else .ok (false, buf)

/-- `parse_frame` -/
def parseFrame (buf : Bytes) : Option (Bytes × Bytes) :=
  if buf.length < 4 then none else
  match fromBe4 (buf.take 4) with
  | none => none
  | some n => if buf.length < 4 + n then none else some ((buf.drop 4).take n, buf.drop (4 + n))

structure FramerCfg where
  relayExpected : Bytes      -- `_expected_relay_handshake`
  inboundPrologue : Bytes    -- `_inbound_prologue`

structure FramerSt where
  st : Framer.State
  buf : Bytes
  deriving DecidableEq, Repr

/-- one turn of the `while True:` loop in `add_and_parse`: dispatch `parse()` through the
    generated table, run the one output, feed the resulting token back as an input.
    Result: `none` = loop breaks; `some (s', yielded?)` = continue. -/
def parseTurn (cfg : FramerCfg) (s : FramerSt) : Except Err (Option (FramerSt × Option Token)) :=
  match Framer.table s.st .parse with
  | some (st1, [.parse_relay_ok]) =>
    (getExpected s.buf cfg.relayExpected).bind fun (ok, rest) =>
      if ok then
        match Framer.table st1 .got_relay_ok with
        | some (st2, _) => .ok (some ({ st := st2, buf := rest }, none))
        | none => .error .noTransition
      else .ok none
  | some (st1, [.parse_prologue]) =>
    (getExpected s.buf cfg.inboundPrologue).bind fun (ok, rest) =>
      if ok then
        match Framer.table st1 .got_prologue with
        | some (st2, _) => .ok (some ({ st := st2, buf := rest }, some .prologue))
        | none => .error .noTransition
      else .ok none
  | some (st1, [.parse_frame]) =>
    match parseFrame s.buf with
    | some (f, rest) => .ok (some ({ st := st1, buf := rest }, some (.frame f)))
    | none => .ok none
  | _ => .error .noTransition

/-- the loop; every continuing turn either consumes ≥ 1 byte or leaves `want_*` for good,
    so `buf.length + 3` turns always suffice (`Props.C12.parseLoop_fuel`).  Result: framer
    state, tokens yielded, and the exception that ended the loop (if any) -/
def parseLoop (cfg : FramerCfg) : Nat → FramerSt → List Token → FramerSt × List Token × Option Err
  | 0, s, acc => (s, acc.reverse, none)
  | fuel + 1, s, acc =>
    match parseTurn cfg s with
    | .error e => (s, acc.reverse, some e)
    | .ok none => (s, acc.reverse, none)
    | .ok (some (s', none)) => parseLoop cfg fuel s' acc
    | .ok (some (s', some t)) => parseLoop cfg fuel s' (t :: acc)

/-- `add_and_parse(data)` -/
def addAndParse (cfg : FramerCfg) (s : FramerSt) (data : Bytes) : FramerSt × List Token × Option Err :=
  let s1 := { s with buf := s.buf ++ data }
  parseLoop cfg (s1.buf.length + 3) s1 []

/-- feed a list of chunks; an exception ends processing (the transport is closed) -/
def feedChunks (cfg : FramerCfg) : FramerSt → List Bytes → List Token → FramerSt × List Token × Option Err
  | s, [], acc => (s, acc, none)
  | s, c :: cs, acc =>
    match addAndParse cfg s c with
    | (s', ts, some e) => (s', acc ++ ts, some e)
    | (s', ts, none) => feedChunks cfg s' cs (acc ++ ts)

/-! ## `_Record` + `DilatedConnectionProtocol.dataReceived` (receive side) -/

/-- what the receive pipeline hands upward for one token -/
inductive Up where
  | handshake | record (r : Rec)
  deriving DecidableEq, Repr

structure L2St where
  fr : FramerSt
  rcd : Record.State
  dcp : DCP.State
  rxNonce : Nat
  handshakeSent : Bool         -- our Noise handshake frame has been written
  kcmSent : Bool               -- follower: KCM written after the peer's handshake
  queued : List Rec            -- `_inbound_record_queue`
  toManager : List Rec         -- everything `manager.got_record` has been called with
  candidate : Bool             -- `connector.add_candidate(self)` called
  deriving Repr

structure L2Cfg where
  framer : FramerCfg
  leader : Bool
  noise : Noise
  validUtf8 : Bytes → Bool
  /-- does the peer's handshake frame verify?  (`noise.read_message`) -/
  handshakeOK : Bytes → Bool

/-- `_Record.got_frame(frame)` through the generated table (collector = first) -/
def recordGotFrame (cfg : L2Cfg) (s : L2St) (f : Bytes) : Except Err (L2St × Up) :=
  match Record.table s.rcd .got_frame with
  | some (st', .process_handshake :: rest) =>
    if cfg.handshakeOK f then
      let s1 := { s with rcd := st' }
      let s2 := if rest.contains .ignore_and_send_handshake then { s1 with handshakeSent := true } else s1
      .ok (s2, .handshake)
    else .error .disconnect
  | some (st', [.decrypt_message]) =>
    match openMessage cfg.noise s.rxNonce f with
    | none => .error .disconnect
    | some (pt, n') =>
      match parseRecord cfg.validUtf8 pt with
      | .error e => .error e
      | .ok r => .ok ({ s with rcd := st', rxNonce := n' }, .record r)
  | _ => .error .noTransition

/-- the body of the `for token in add_and_unframe(data)` loop in `dataReceived` -/
def l2Token (cfg : L2Cfg) (s : L2St) : Token → Except Err L2St
  | .relayOK => .ok s
  | .prologue =>
    match Record.table s.rcd .got_prologue with
    | some (st', outs) =>
      .ok { s with rcd := st', handshakeSent := s.handshakeSent || outs.contains .send_handshake }
    | none => .error .noTransition
  | .frame f =>
    (recordGotFrame cfg s f).bind fun (s1, up) =>
      match up with
      | .handshake => .ok (if cfg.leader then s1 else { s1 with kcmSent := true })
      | .record .kcm =>
        match DCP.table s1.dcp .got_kcm with
        | some (d', outs) => .ok { s1 with dcp := d', candidate := s1.candidate || outs.contains .add_candidate }
        | none => .error .noTransition
      | .record r =>
        match DCP.table s1.dcp .got_record with
        | some (d', [.queue_inbound_record]) => .ok { s1 with dcp := d', queued := s1.queued ++ [r] }
        | some (d', [.deliver_record]) => .ok { s1 with dcp := d', toManager := s1.toManager ++ [r] }
        | _ => .error .noTransition

/-- run the tokens in order; stop at the first exception, keeping the effects of the tokens
    before it (the real generator is lazy, so this is what the code does) -/
def l2Tokens (cfg : L2Cfg) : L2St → List Token → L2St × Option Err
  | s, [] => (s, none)
  | s, t :: ts =>
    match l2Token cfg s t with
    | .ok s' => l2Tokens cfg s' ts
    | .error e => (s, some e)

/-- `DilatedConnectionProtocol.select(manager)` -/
def l2Select (s : L2St) : Except Err L2St :=
  match DCP.table s.dcp .select with
  | some (d', outs) =>
    if outs.contains .process_inbound_queue then
      .ok { s with dcp := d', toManager := s.toManager ++ s.queued, queued := [] }
    else .ok { s with dcp := d' }
  | none => .error .noTransition

/-- the `for token in self._record.add_and_unframe(data)` loop of `dataReceived`, with the
    generator's laziness kept: one framer turn, then the token's handling, then the next turn.
    An exception (from the framer or from handling a token) ends the loop with everything done
    so far left in place — in particular the unparsed rest of the buffer. -/
def l2Loop (cfg : L2Cfg) : Nat → L2St → L2St × Option Err
  | 0, s => (s, none)
  | fuel + 1, s =>
    match parseTurn cfg.framer s.fr with
    | .error e => (s, some e)
    | .ok none => (s, none)
    | .ok (some (fr', none)) => l2Loop cfg fuel { s with fr := fr' }
    | .ok (some (fr', some t)) =>
      match l2Token cfg { s with fr := fr' } t with
      | .ok s2 => l2Loop cfg fuel s2
      | .error e => ({ s with fr := fr' }, some e)

/-- `dataReceived(data)`: new state and the exception that ended it, if any.  `Disconnect` is
    caught by the real method and turned into `transport.loseConnection()`; any other exception
    propagates to Twisted, which also drops the connection.  Either way the caller (`l2Feed`)
    delivers nothing further. -/
def l2Data (cfg : L2Cfg) (s : L2St) (data : Bytes) : L2St × Option Err :=
  let s1 := { s with fr := { s.fr with buf := s.fr.buf ++ data } }
  l2Loop cfg (s1.fr.buf.length + 3) s1

/-- a whole inbound byte stream, in chunks; stops at the first failure -/
def l2Feed (cfg : L2Cfg) : L2St → List Bytes → L2St × Option Err
  | s, [] => (s, none)
  | s, c :: cs =>
    match l2Data cfg s c with
    | (s', none) => l2Feed cfg s' cs
    | (s', some e) => (s', some e)

def l2Init (relay : Bool) (leader : Bool) : L2St :=
  { fr := { st := if relay then .want_relay else Framer.init, buf := [] },
    rcd := if leader then .want_prologue_leader else .want_prologue_follower,
    dcp := DCP.init, rxNonce := 0, handshakeSent := false, kcmSent := false,
    queued := [], toManager := [], candidate := false }

/-! ## driver (line protocol)

```
be4 <n>                       -> hex | ValueError
unbe4 <hex>                   -> n | ValueError
enc <rec…>                    -> hex | ValueError            (encode_record)
parse <hex>                   -> rec… | <Error>              (parse_record)
seal <hex>                    -> hex                          (frame body under the toy noise, nonce from state)
new <relay:0/1> <leader:0/1> <hex inbound prologue>          -> ok
data <hex>                    -> state summary | Disconnect… (dataReceived on the model connection)
select                        -> state summary
```
The toy Noise used by the driver *and* by the harness' fake: `enc n m = m ++ tag(n, m)` with
`tag(n, m)` = 16 bytes `(7n + Σm + |m|) % 256`, `dec` checks and strips the tag.
-/

def toyTag (n : Nat) (m : Bytes) : Bytes := List.replicate 16 ((n * 7 + m.sum + m.length) % 256)
def toyNoise : Noise :=
  { enc := fun n m => m ++ toyTag n m,
    dec := fun n c =>
      let m := c.take (c.length - 16)
      if 16 ≤ c.length ∧ c.drop (c.length - 16) = toyTag n m then some m else none }

def realValidUtf8 (b : Bytes) : Bool :=
  (String.fromUTF8? ⟨(b.map (fun n => n.toUInt8)).toArray⟩).isSome

def showRec : Rec → String
  | .kcm => "kcm"
  | .ping id => s!"ping {toHex id}"
  | .pong id => s!"pong {toHex id}"
  | .opn s c sub => s!"open {s} {c} {toHex sub}"
  | .data s c d => s!"data {s} {c} {toHex d}"
  | .close s c => s!"close {s} {c}"
  | .ack r => s!"ack {r}"

def readRec? : List String → Option Rec
  | ["kcm"] => some .kcm
  | ["ping", h] => (fromHex? h).map .ping
  | ["pong", h] => (fromHex? h).map .pong
  | ["open", s, c, h] => do pure (.opn (← s.toNat?) (← c.toNat?) (← fromHex? h))
  | ["data", s, c, h] => do pure (.data (← s.toNat?) (← c.toNat?) (← fromHex? h))
  | ["close", s, c] => do pure (.close (← s.toNat?) (← c.toNat?))
  | ["ack", r] => do pure (.ack (← r.toNat?))
  | _ => none

structure DrvSt where
  cfg : L2Cfg
  l2 : L2St
  dead : Bool
  txNonce : Nat

def drvCfg (leader : Bool) (pro : Bytes) : L2Cfg :=
  { framer := { relayExpected := [111, 107, 10], inboundPrologue := pro },
    leader := leader, noise := toyNoise, validUtf8 := realValidUtf8,
    handshakeOK := fun f => f == [104, 115] }   -- the fake noise handshake is b"hs"

def showL2 (s : L2St) : String :=
  s!"{Framer.State.name s.fr.st} {Record.State.name s.rcd} {DCP.State.name s.dcp} buf={s.fr.buf.length} hs={s.handshakeSent} kcm={s.kcmSent} cand={s.candidate} queued={s.queued.length} mgr=[{"; ".intercalate (s.toManager.map showRec)}]"

def drvInit : DrvSt := { cfg := drvCfg true [], l2 := l2Init false true, dead := false, txNonce := 0 }

def step (s : DrvSt) (line : String) : DrvSt × String :=
  match tokens line with
  | ["reset"] => (drvInit, "ok")
  | ["be4", n] =>
    match n.toNat? with
    | some k => (s, match toBe4 k with | some b => toHex b | none => "ValueError")
    | none => (s, "bad-op")
  | ["unbe4", h] =>
    match fromHex? h with
    | some b => (s, match fromBe4 b with | some n => toString n | none => "ValueError")
    | none => (s, "bad-op")
  | "enc" :: rest =>
    match readRec? rest with
    | some r => (s, match encodeRecord r with | some b => toHex b | none => "ValueError")
    | none => (s, "bad-op")
  | ["parse", h] =>
    match fromHex? h with
    | some b => (s, match parseRecord realValidUtf8 b with | .ok r => showRec r | .error e => e.name)
    | none => (s, "bad-op")
  | ["seal", h] =>
    match fromHex? h with
    | some b =>
      let (body, n') := sealMessage toyNoise s.txNonce b
      ({ s with txNonce := n' }, toHex body)
    | none => (s, "bad-op")
  | ["new", relay, leader, pro] =>
    match fromHex? pro with
    | some p =>
      let ld := leader == "1"
      ({ cfg := drvCfg ld p, l2 := l2Init (relay == "1") ld, dead := false, txNonce := 0 }, "ok")
    | none => (s, "bad-op")
  | ["data", h] =>
    match fromHex? h with
    | some b =>
      if s.dead then (s, "dead") else
      match l2Data s.cfg s.l2 b with
      | (l2', none) => ({ s with l2 := l2' }, showL2 l2')
      | (l2', some e) => ({ s with l2 := l2', dead := true }, e.name ++ " " ++ showL2 l2')
    | none => (s, "bad-op")
  | ["select"] =>
    match l2Select s.l2 with
    | .ok l2' => ({ s with l2 := l2' }, showL2 l2')
    | .error e => (s, e.name)
  | _ => (s, "bad-op")

def driver (lines : List String) : List String := runLines step drvInit lines

end WV.C12
