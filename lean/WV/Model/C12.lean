import WV.Model.Basic
import WV.Gen.T_Framer
import WV.Gen.T_Record
import WV.Gen.T_DCP
import WV.Gen.Consts

/-!
C12 — Dilation L2 framing / encryption / encoding.

Model of `src/wormhole/_dilation/encode.py` (`to_be4`, `from_be4`),
`connection.py` (`encode_record`, `parse_record`, `_Framer`, `_Record`,
`DilatedConnectionProtocol.dataReceived`).  The three Automat tables are the
*generated* ones; this file gives the output bodies.
-/
namespace WV.C12
open WV WV.Gen

/-! ## be4 -/

/-- `to_be4`: `none` = `ValueError` (value outside `0 ≤ v < 2**32`) -/
def toBe4 (n : Nat) : Option Bytes :=
  if n < 4294967296 then
    some [n / 16777216 % 256, n / 65536 % 256, n / 256 % 256, n % 256]
  else none

/-- `from_be4`: `none` = `ValueError` (length ≠ 4) -/
def fromBe4 : Bytes → Option Nat
  | [a, b, c, d] => some (a * 16777216 + b * 65536 + c * 256 + d)
  | _ => none

/-! ## records -/

/-- the seven record types; `sub` is the subprotocol name as its UTF-8 encoding -/
inductive Rec where
  | kcm
  | ping (id : Bytes)
  | pong (id : Bytes)
  | opn (seqnum scid : Nat) (sub : Bytes)
  | data (seqnum scid : Nat) (d : Bytes)
  | close (seqnum scid : Nat)
  | ack (resp : Nat)
  deriving DecidableEq, Repr

inductive Err where
  | valueError      -- to_be4 / from_be4 / unknown record type
  | unicodeError    -- str(bytes, "utf8") on invalid UTF-8
  | disconnect      -- `Disconnect`: the connection is dropped
  | noTransition    -- Automat: input not declared in this state
  | assertion
  deriving DecidableEq, Repr

def Err.name : Err → String
  | .valueError => "ValueError" | .unicodeError => "UnicodeDecodeError"
  | .disconnect => "Disconnect" | .noTransition => "NoTransition" | .assertion => "AssertionError"

/-- `encode_record`; `none` = `ValueError` raised by `to_be4` -/
def encodeRecord : Rec → Option Bytes
  | .kcm => some [Consts.T_KCM]
  | .ping id => some (Consts.T_PING :: id)
  | .pong id => some (Consts.T_PONG :: id)
  | .opn seqnum scid sub => do
      let a ← toBe4 scid
      let b ← toBe4 seqnum
      pure (Consts.T_OPEN :: (a ++ b ++ sub))
  | .data seqnum scid d => do
      let a ← toBe4 scid
      let b ← toBe4 seqnum
      pure (Consts.T_DATA :: (a ++ b ++ d))
  | .close seqnum scid => do
      let a ← toBe4 scid
      let b ← toBe4 seqnum
      pure (Consts.T_CLOSE :: (a ++ b))
  | .ack r => do
      let a ← toBe4 r
      pure (Consts.T_ACK :: a)

def be4At (pt : Bytes) (off : Nat) : Except Err Nat :=
  match fromBe4 ((pt.drop off).take 4) with
  | some n => .ok n
  | none => .error .valueError

/-- `parse_record`, parameterised by the UTF-8 validity predicate used by `str(b, "utf8")` -/
def parseRecord (validUtf8 : Bytes → Bool) (pt : Bytes) : Except Err Rec :=
  match pt with
  | [] => .error .valueError
  | t :: _ =>
    if t = Consts.T_KCM then .ok .kcm
    else if t = Consts.T_PING then .ok (.ping ((pt.drop 1).take 4))
    else if t = Consts.T_PONG then .ok (.pong ((pt.drop 1).take 4))
    else if t = Consts.T_OPEN then do
      let scid ← be4At pt 1
      let seqnum ← be4At pt 5
      let sub := pt.drop 9
      if validUtf8 sub then .ok (.opn seqnum scid sub) else .error .unicodeError
    else if t = Consts.T_DATA then do
      let scid ← be4At pt 1
      let seqnum ← be4At pt 5
      .ok (.data seqnum scid (pt.drop 9))
    else if t = Consts.T_CLOSE then do
      let scid ← be4At pt 1
      let seqnum ← be4At pt 5
      .ok (.close seqnum scid)
    else if t = Consts.T_ACK then do
      let r ← be4At pt 1
      .ok (.ack r)
    else .error .valueError

/-- what `encode_record`∘`parse_record` can round-trip: 32-bit fields, 4-byte ping ids,
    subprotocol a real `str` (valid UTF-8) -/
def Rec.wf (validUtf8 : Bytes → Bool) : Rec → Prop
  | .kcm => True
  | .ping id => id.length = 4
  | .pong id => id.length = 4
  | .opn s c sub => s < 4294967296 ∧ c < 4294967296 ∧ validUtf8 sub = true
  | .data s c _ => s < 4294967296 ∧ c < 4294967296
  | .close s c => s < 4294967296 ∧ c < 4294967296
  | .ack r => r < 4294967296

/-! ## Noise as an interface -/

/-- One direction of an established Noise transport: a nonce-indexed AEAD.  The ideal
    properties are hypotheses of the theorems (`Noise.Ideal`), never axioms. -/
structure Noise where
  enc : Nat → Bytes → Bytes
  dec : Nat → Bytes → Option Bytes

structure Noise.Ideal (N : Noise) : Prop where
  dec_enc : ∀ n m, N.dec n (N.enc n m) = some m
  len_enc : ∀ n m, (N.enc n m).length = m.length + 16
  /-- authenticity: only the honest ciphertext for this nonce opens -/
  auth : ∀ n c m, N.dec n c = some m → c = N.enc n m

/-- split into pieces of `k` bytes (the `while start < len(x)` loops); fuel = length -/
def chunksOf (k : Nat) : Nat → Bytes → List Bytes
  | 0, _ => []
  | fuel + 1, m => if m.isEmpty then [] else m.take k :: chunksOf k fuel (m.drop k)

/-- encrypt pieces with successive nonces and concatenate -/
def encChunks (N : Noise) : Nat → List Bytes → Bytes × Nat
  | n, [] => ([], n)
  | n, c :: cs => let (r, n') := encChunks N (n + 1) cs; (N.enc n c ++ r, n')

/-- the frame body `_Record.send_record` builds for an encoded message -/
def sealMessage (N : Noise) (n : Nat) (msg : Bytes) : Bytes × Nat :=
  if msg.length ≤ Consts.NOISE_MAX_PAYLOAD then (N.enc n msg, n + 1)
  else encChunks N n (chunksOf Consts.NOISE_MAX_PAYLOAD msg.length msg)

def decChunks (N : Noise) : Nat → List Bytes → Option (Bytes × Nat)
  | n, [] => some ([], n)
  | n, c :: cs => do
      let p ← N.dec n c
      let (r, n') ← decChunks N (n + 1) cs
      pure (p ++ r, n')

/-- the plaintext `_Record.decrypt_message` recovers from a frame body; `none` = `Disconnect` -/
def openMessage (N : Noise) (n : Nat) (frame : Bytes) : Option (Bytes × Nat) :=
  if frame.length ≤ Consts.NOISE_MAX_CIPHERTEXT then
    (N.dec n frame).map (fun p => (p, n + 1))
  else decChunks N n (chunksOf Consts.NOISE_MAX_CIPHERTEXT frame.length frame)

/-- specification vocabulary: `frame` is a concatenation of ciphertexts made with the key for the
    successive nonces `n, n+1, …` (at least one) -/
def KeyedFrame (N : Noise) (n : Nat) (frame : Bytes) : Prop :=
  ∃ ps : List Bytes, ps ≠ [] ∧ frame = (encChunks N n ps).1

/-- `_Framer.send_frame` -/
def frameBytes (body : Bytes) : Option Bytes := do
  let l ← toBe4 body.length
  pure (l ++ body)

/-- `_Record.send_record`: bytes put on the wire for one record -/
def sendRecord (N : Noise) (n : Nat) (r : Rec) : Option (Bytes × Nat) := do
  let msg ← encodeRecord r
  let (body, n') := sealMessage N n msg
  let fr ← frameBytes body
  pure (fr, n')

/-! ## `_Framer` -/

inductive Token where
  | relayOK | prologue | frame (f : Bytes)
  deriving DecidableEq, Repr

/-- `_get_expected`: `.error` = `Disconnect`; `(true, rest)` = consumed -/
def getExpected (buf expected : Bytes) : Except Err (Bool × Bytes) :=
  if expected.isPrefixOf buf then .ok (true, buf.drop expected.length)
  else if !(buf.isPrefixOf expected) then
    if buf.contains 10 || expected.length ≤ buf.length then .error .disconnect
    else .ok (false, buf)
  else .ok (false, buf)

/-- specification vocabulary: divergence in the sense of `_get_expected` — neither byte string is
    a prefix of the other -/
def Diverges (buf expected : Bytes) : Prop := ¬ expected <+: buf ∧ ¬ buf <+: expected

/-- `parse_frame` -/
def parseFrame (buf : Bytes) : Option (Bytes × Bytes) :=
  if buf.length < 4 then none else
  match fromBe4 (buf.take 4) with
  | none => none
  | some n => if buf.length < 4 + n then none else some ((buf.drop 4).take n, buf.drop (4 + n))

structure FramerCfg where
  relayExpected : Bytes      -- `_expected_relay_handshake`
  inboundPrologue : Bytes    -- `_inbound_prologue`

structure FramerSt where
  st : Framer.State
  buf : Bytes
  deriving DecidableEq, Repr

/-- one turn of the `while True:` loop in `add_and_parse`: dispatch `parse()` through the
    generated table, run the one output, feed the resulting token back as an input.
    Result: `none` = loop breaks; `some (s', yielded?)` = continue. -/
def parseTurn (cfg : FramerCfg) (s : FramerSt) : Except Err (Option (FramerSt × Option Token)) :=
  match Framer.table s.st .parse with
  | some (st1, [.parse_relay_ok]) =>
    (getExpected s.buf cfg.relayExpected).bind fun (ok, rest) =>
      if ok then
        match Framer.table st1 .got_relay_ok with
        | some (st2, _) => .ok (some ({ st := st2, buf := rest }, none))
        | none => .error .noTransition
      else .ok none
  | some (st1, [.parse_prologue]) =>
    (getExpected s.buf cfg.inboundPrologue).bind fun (ok, rest) =>
      if ok then
        match Framer.table st1 .got_prologue with
        | some (st2, _) => .ok (some ({ st := st2, buf := rest }, some .prologue))
        | none => .error .noTransition
      else .ok none
  | some (st1, [.parse_frame]) =>
    match parseFrame s.buf with
    | some (f, rest) => .ok (some ({ st := st1, buf := rest }, some (.frame f)))
    | none => .ok none
  | _ => .error .noTransition

/-- the `while True:` loop of `add_and_parse` *together with its consumer*: `add_and_parse` is a
    generator, so the consumer's handling `h` of a yielded token runs before the framer's next
    turn.  `U` is the consumer's state; `h` returns either the new state or the exception
    together with the state as far as it had been updated when the exception was raised.
    An exception (from the framer or from `h`) ends the loop with everything done so far left
    in place — in particular the unparsed rest of the buffer.
    Every continuing turn either consumes ≥ 1 byte or leaves `want_*` for good, so
    `buf.length + 3` turns always suffice (`Props.C12.parseLoop_fuel`). -/
def pump {U : Type} (cfg : FramerCfg) (h : U → Token → Except (Err × U) U) :
    Nat → FramerSt → U → FramerSt × U × Option Err
  | 0, fr, u => (fr, u, none)
  | fuel + 1, fr, u =>
    match parseTurn cfg fr with
    | .error e => (fr, u, some e)
    | .ok none => (fr, u, none)
    | .ok (some (fr', none)) => pump cfg h fuel fr' u
    | .ok (some (fr', some t)) =>
      match h u t with
      | .ok u' => pump cfg h fuel fr' u'
      | .error (e, u1) => (fr', u1, some e)

/-- `self._buffer += data` then the loop -/
def pumpData {U : Type} (cfg : FramerCfg) (h : U → Token → Except (Err × U) U)
    (fr : FramerSt) (u : U) (data : Bytes) : FramerSt × U × Option Err :=
  let fr1 : FramerSt := { fr with buf := fr.buf ++ data }
  pump cfg h (fr1.buf.length + 3) fr1 u

/-- a whole inbound byte stream, in chunks; an exception ends processing (the transport is
    closed: nothing further is delivered) -/
def feed {U : Type} (cfg : FramerCfg) (h : U → Token → Except (Err × U) U) :
    FramerSt → U → List Bytes → FramerSt × U × Option Err
  | fr, u, [] => (fr, u, none)
  | fr, u, c :: cs =>
    match pumpData cfg h fr u c with
    | (fr', u', none) => feed cfg h fr' u' cs
    | (fr', u', some e) => (fr', u', some e)

/-- the consumer `list(...)`: collect the yielded tokens -/
def collect (acc : List Token) (t : Token) : Except (Err × List Token) (List Token) := .ok (acc ++ [t])

/-- the framer's loop on its own: framer state, tokens yielded so far, exception (if any) -/
def parseLoop (cfg : FramerCfg) (fuel : Nat) (s : FramerSt) (acc : List Token) :
    FramerSt × List Token × Option Err :=
  pump cfg collect fuel s acc

/-- `add_and_parse(data)`, tokens collected -/
def addAndParse (cfg : FramerCfg) (s : FramerSt) (data : Bytes) : FramerSt × List Token × Option Err :=
  pumpData cfg collect s [] data

/-- feed a list of chunks to the framer alone -/
def feedChunks (cfg : FramerCfg) (s : FramerSt) (cs : List Bytes) : FramerSt × List Token × Option Err :=
  feed cfg collect s [] cs

/-! ## `_Record` + `DilatedConnectionProtocol.dataReceived` (receive side) -/

/-- what the receive pipeline hands upward for one token -/
inductive Up where
  | handshake | record (r : Rec)
  deriving DecidableEq, Repr

/-- everything above the framer: `_Record`, the Noise receive nonce, the DCP machine -/
structure UpSt where
  rcd : Record.State
  dcp : DCP.State
  rxNonce : Nat
  handshakeSent : Bool         -- our Noise handshake frame has been written
  kcmSent : Bool               -- follower: KCM written after the peer's handshake
  queued : List Rec            -- `_inbound_record_queue`
  toManager : List Rec         -- everything `manager.got_record` has been called with
  candidate : Bool             -- `connector.add_candidate(self)` called
  deriving DecidableEq, Repr

structure L2St where
  fr : FramerSt
  up : UpSt
  deriving DecidableEq, Repr

structure L2Cfg where
  framer : FramerCfg
  leader : Bool
  noise : Noise
  validUtf8 : Bytes → Bool
  /-- does the peer's handshake frame verify?  (`noise.read_message`) -/
  handshakeOK : Bytes → Bool

/-- `_Record.got_frame(frame)` through the generated table (collector = first).  Automat sets
    the new state first, so an output that raises leaves `_Record` in the row's target state;
    a record that fails to parse has already advanced the Noise nonce. -/
def recordGotFrame (cfg : L2Cfg) (s : UpSt) (f : Bytes) : Except (Err × UpSt) (UpSt × Up) :=
  match Record.table s.rcd .got_frame with
  | some (st', .process_handshake :: rest) =>
    let s1 := { s with rcd := st' }
    if cfg.handshakeOK f then
      let s2 := if rest.contains .ignore_and_send_handshake then { s1 with handshakeSent := true } else s1
      .ok (s2, .handshake)
    else .error (.disconnect, s1)
  | some (st', [.decrypt_message]) =>
    let s1 := { s with rcd := st' }
    match openMessage cfg.noise s.rxNonce f with
    | none => .error (.disconnect, s1)
    | some (pt, n') =>
      let s2 := { s1 with rxNonce := n' }
      match parseRecord cfg.validUtf8 pt with
      | .error e => .error (e, s2)
      | .ok r => .ok (s2, .record r)
  | _ => .error (.noTransition, s)

/-- the body of the `for token in add_and_unframe(data)` loop in `dataReceived` (with the
    `Prologue` token handled as `add_and_unframe` does).  `NoTransition` is raised before the
    DCP machine changes anything, but after `_Record` has done its part. -/
def l2Token (cfg : L2Cfg) (s : UpSt) : Token → Except (Err × UpSt) UpSt
  | .relayOK => .ok s
  | .prologue =>
    match Record.table s.rcd .got_prologue with
    | some (st', outs) =>
      .ok { s with rcd := st', handshakeSent := s.handshakeSent || outs.contains .send_handshake }
    | none => .error (.noTransition, s)
  | .frame f =>
    match recordGotFrame cfg s f with
    | .error e => .error e
    | .ok (s1, up) =>
      match up with
      | .handshake => .ok (if cfg.leader then s1 else { s1 with kcmSent := true })
      | .record .kcm =>
        match DCP.table s1.dcp .got_kcm with
        | some (d', outs) => .ok { s1 with dcp := d', candidate := s1.candidate || outs.contains .add_candidate }
        | none => .error (.noTransition, s1)
      | .record r =>
        match DCP.table s1.dcp .got_record with
        | some (d', [.queue_inbound_record]) => .ok { s1 with dcp := d', queued := s1.queued ++ [r] }
        | some (d', [.deliver_record]) => .ok { s1 with dcp := d', toManager := s1.toManager ++ [r] }
        | _ => .error (.noTransition, s1)

/-- `DilatedConnectionProtocol.select(manager)` -/
def upSelect (s : UpSt) : Except Err UpSt :=
  match DCP.table s.dcp .select with
  | some (d', outs) =>
    if outs.contains .process_inbound_queue then
      .ok { s with dcp := d', toManager := s.toManager ++ s.queued, queued := [] }
    else .ok { s with dcp := d' }
  | none => .error .noTransition

def l2Select (s : L2St) : Except Err L2St :=
  (upSelect s.up).map fun u => { s with up := u }

/-- `dataReceived(data)`: new state and the exception that ended it, if any.  `Disconnect` is
    caught by the real method and turned into `transport.loseConnection()`; any other exception
    propagates to Twisted, which also drops the connection.  Either way the caller (`l2Feed`)
    delivers nothing further. -/
def l2Data (cfg : L2Cfg) (s : L2St) (data : Bytes) : L2St × Option Err :=
  match pumpData cfg.framer (l2Token cfg) s.fr s.up data with
  | (fr', u', e) => ({ fr := fr', up := u' }, e)

/-- a whole inbound byte stream, in chunks; stops at the first failure -/
def l2Feed (cfg : L2Cfg) (s : L2St) (cs : List Bytes) : L2St × Option Err :=
  match feed cfg.framer (l2Token cfg) s.fr s.up cs with
  | (fr', u', e) => ({ fr := fr', up := u' }, e)

/-- `DilatedConnectionProtocol.connectionLost()`: fires the disconnect observer and nothing else — the
    framer, `_Record`, the DCP machine and in particular the records parked in `_inbound_record_queue`
    are left as they are (a `select` that the Connector has already scheduled still flushes them).
    Shape pinned from the source by `Props.C12.flow_control_and_loss_pins`. -/
def l2Lost (s : L2St) : L2St := s

/-- `pauseProducing()` / `resumeProducing()`: forwarded to the transport and nothing else.  Pausing stops
    FUTURE reads; the read being processed is handled to its last token (`dataReceived`'s loop has no early
    exit), and nothing is held back that a later `resumeProducing` would have to hand over. -/
def l2Pause (s : L2St) : L2St := s
def l2Resume (s : L2St) : L2St := s

def upInit (leader : Bool) : UpSt :=
  { rcd := if leader then .want_prologue_leader else .want_prologue_follower,
    dcp := DCP.init, rxNonce := 0, handshakeSent := false, kcmSent := false,
    queued := [], toManager := [], candidate := false }

def l2Init (relay : Bool) (leader : Bool) : L2St :=
  { fr := { st := if relay then .want_relay else Framer.init, buf := [] }, up := upInit leader }

/-! ## the honest sender (what the peer's `_Framer`/`_Record` put on the wire) -/

/-- successive `send_record` calls -/
def sendRecords (N : Noise) : Nat → List Rec → Option (Bytes × Nat)
  | n, [] => some ([], n)
  | n, r :: rs => do
    let (b, n1) ← sendRecord N n r
    let (bs, n2) ← sendRecords N n1 rs
    pure (b ++ bs, n2)

/-- the records `Connector.select_and_stop_remaining(c)` causes to be written on the connection it
    selects, in order: first the Leader's `c.send_record(KCM())` (the Follower's KCM went out when
    the handshake arrived), then what `manager.connector_connection_made(c)` →
    `Outbound.use_connection(c)` → `resumeProducing` re-sends at once: every un-acked record.
    The order of the two calls is pinned by `Props.C12.selection_skeleton`. -/
def selectionWrites (leader : Bool) (backlog : List Rec) : List Rec :=
  (if leader then [.kcm] else []) ++ backlog

/-- every byte an honest peer (and, before it, the relay) sends on one connection: relay reply,
    prologue, Noise handshake frame `hs`, KCM, then the records -/
def honestStream (cfg : L2Cfg) (relay : Bool) (hs : Bytes) (recs : List Rec) : Option Bytes := do
  let hf ← frameBytes hs
  let (body, _) ← sendRecords cfg.noise 0 (.kcm :: recs)
  pure ((if relay then cfg.framer.relayExpected else []) ++ cfg.framer.inboundPrologue ++ hf ++ body)

/-! ## driver (line protocol)

```
be4 <n>                       -> hex | ValueError
unbe4 <hex>                   -> n | ValueError
enc <rec…>                    -> hex | ValueError            (encode_record)
parse <hex>                   -> rec… | <Error>              (parse_record)
seal <hex>                    -> hex                          (frame body under the toy noise, nonce from state)
send <rec…>                   -> hex | ValueError            (send_record: the bytes written to the transport)
new <relay:0/1> <leader:0/1> <hex inbound prologue>          -> ok
data <hex>                    -> state summary | Disconnect… (dataReceived on the model connection)
select                        -> state summary
lost | pause | resume         -> state summary               (connectionLost / pauseProducing / resumeProducing)
fnew <relay:0/1> <hex inbound prologue>                      -> ok     (a `_Framer` on its own)
fdata <hex>                   -> tokens, exception, framer state       (list(add_and_parse(data)))
```
The toy Noise used by the driver *and* by the harness' fake: `enc n m = m ++ tag(n, m)` with
`tag(n, m)` = 16 bytes `(7n + Σm + |m|) % 256`, `dec` checks and strips the tag.
-/

def toyTag (n : Nat) (m : Bytes) : Bytes := List.replicate 16 ((n * 7 + m.sum + m.length) % 256)
def toyNoise : Noise :=
  { enc := fun n m => m ++ toyTag n m,
    dec := fun n c =>
      let m := c.take (c.length - 16)
      if 16 ≤ c.length ∧ c.drop (c.length - 16) = toyTag n m then some m else none }

def realValidUtf8 (b : Bytes) : Bool :=
  (String.fromUTF8? ⟨(b.map (fun n => n.toUInt8)).toArray⟩).isSome

def showRec : Rec → String
  | .kcm => "kcm"
  | .ping id => s!"ping {toHex id}"
  | .pong id => s!"pong {toHex id}"
  | .opn s c sub => s!"open {s} {c} {toHex sub}"
  | .data s c d => s!"data {s} {c} {toHex d}"
  | .close s c => s!"close {s} {c}"
  | .ack r => s!"ack {r}"

def readRec? : List String → Option Rec
  | ["kcm"] => some .kcm
  | ["ping", h] => (fromHex? h).map .ping
  | ["pong", h] => (fromHex? h).map .pong
  | ["open", s, c, h] => do pure (.opn (← s.toNat?) (← c.toNat?) (← fromHex? h))
  | ["data", s, c, h] => do pure (.data (← s.toNat?) (← c.toNat?) (← fromHex? h))
  | ["close", s, c] => do pure (.close (← s.toNat?) (← c.toNat?))
  | ["ack", r] => do pure (.ack (← r.toNat?))
  | _ => none

def showToken : Token → String
  | .relayOK => "relayok"
  | .prologue => "prologue"
  | .frame f => "frame:" ++ toHex f

structure DrvSt where
  cfg : L2Cfg
  l2 : L2St
  dead : Bool
  txNonce : Nat
  fcfg : FramerCfg
  fs : FramerSt
  fdead : Bool

/-- the relay's reply `_Framer.store_relay_handshake` expects: `b"ok\n"` -/
def relayOkBytes : Bytes := [111, 107, 10]

def drvCfg (leader : Bool) (pro : Bytes) : L2Cfg :=
  { framer := { relayExpected := relayOkBytes, inboundPrologue := pro },
    leader := leader, noise := toyNoise, validUtf8 := realValidUtf8,
    handshakeOK := fun f => f == [104, 115] }   -- the fake noise handshake is b"hs"

def showL2 (s : L2St) : String :=
  s!"{Framer.State.name s.fr.st} {Record.State.name s.up.rcd} {DCP.State.name s.up.dcp} buf={s.fr.buf.length} hs={s.up.handshakeSent} kcm={s.up.kcmSent} cand={s.up.candidate} queued={s.up.queued.length} mgr=[{"; ".intercalate (s.up.toManager.map showRec)}]"

def drvInit : DrvSt :=
  { cfg := drvCfg true [], l2 := l2Init false true, dead := false, txNonce := 0,
    fcfg := { relayExpected := relayOkBytes, inboundPrologue := [] },
    fs := { st := Framer.init, buf := [] }, fdead := false }

def step (s : DrvSt) (line : String) : DrvSt × String :=
  match tokens line with
  | ["reset"] => (drvInit, "ok")
  | ["be4", n] =>
    match n.toNat? with
    | some k => (s, match toBe4 k with | some b => toHex b | none => "ValueError")
    | none => (s, "bad-op")
  | ["unbe4", h] =>
    match fromHex? h with
    | some b => (s, match fromBe4 b with | some n => toString n | none => "ValueError")
    | none => (s, "bad-op")
  | "enc" :: rest =>
    match readRec? rest with
    | some r => (s, match encodeRecord r with | some b => toHex b | none => "ValueError")
    | none => (s, "bad-op")
  | ["parse", h] =>
    match fromHex? h with
    | some b => (s, match parseRecord realValidUtf8 b with | .ok r => showRec r | .error e => e.name)
    | none => (s, "bad-op")
  | ["seal", h] =>
    match fromHex? h with
    | some b =>
      let (body, n') := sealMessage toyNoise s.txNonce b
      ({ s with txNonce := n' }, toHex body)
    | none => (s, "bad-op")
  | "send" :: rest =>
    match readRec? rest with
    | some r =>
      match sendRecord toyNoise s.txNonce r with
      | some (b, n') => ({ s with txNonce := n' }, toHex b)
      | none => (s, "ValueError")
    | none => (s, "bad-op")
  | ["new", relay, leader, pro] =>
    match fromHex? pro with
    | some p =>
      let ld := leader == "1"
      ({ s with cfg := drvCfg ld p, l2 := l2Init (relay == "1") ld, dead := false, txNonce := 0 }, "ok")
    | none => (s, "bad-op")
  | ["data", h] =>
    match fromHex? h with
    | some b =>
      if s.dead then (s, "dead") else
      match l2Data s.cfg s.l2 b with
      | (l2', none) => ({ s with l2 := l2' }, showL2 l2')
      | (l2', some e) => ({ s with l2 := l2', dead := true }, e.name ++ " " ++ showL2 l2')
    | none => (s, "bad-op")
  | ["select"] =>
    match l2Select s.l2 with
    | .ok l2' => ({ s with l2 := l2' }, showL2 l2')
    | .error e => (s, e.name)
  | ["lost"] => let l2' := l2Lost s.l2; ({ s with l2 := l2' }, showL2 l2')
  | ["pause"] => let l2' := l2Pause s.l2; ({ s with l2 := l2' }, showL2 l2')
  | ["resume"] => let l2' := l2Resume s.l2; ({ s with l2 := l2' }, showL2 l2')
  | ["fnew", relay, pro] =>
    match fromHex? pro with
    | some p =>
      ({ s with fcfg := { relayExpected := relayOkBytes, inboundPrologue := p },
                fs := { st := if relay == "1" then .want_relay else Framer.init, buf := [] },
                fdead := false }, "ok")
    | none => (s, "bad-op")
  | ["fdata", h] =>
    match fromHex? h with
    | some b =>
      if s.fdead then (s, "dead") else
      match addAndParse s.fcfg s.fs b with
      | (fs', ts, e) =>
        let toks := if ts.isEmpty then "-" else ",".intercalate (ts.map showToken)
        let err := match e with | none => "ok" | some e => e.name
        ({ s with fs := fs', fdead := e.isSome },
         s!"{toks} {err} {Framer.State.name fs'.st} buf={fs'.buf.length}")
    | none => (s, "bad-op")
  | _ => (s, "bad-op")

def driver (lines : List String) : List String := runLines step drvInit lines

end WV.C12
