import WV.Model.Basic

/-!
# OBSERVER — the Deferred façade's observers (component of C18)

Executable model of `src/wormhole/observer.py` (`OneShotObserver`, `SequenceObserver`),
`src/wormhole/eventual.py` (`EventualQueue`) and the observer side of
`src/wormhole/wormhole.py` `_DeferredWormhole` (`get_*`, `got_*`, `received`, `closed`, `close`).

Deferreds are numbered in the order they are created (`W.regs`, the index is the identity of the
Deferred).  A `Call` is one entry of `EventualQueue._calls`: "call `d.callback(res)`" (or
`d.errback(res)`; a `Failure` given to `callback` takes the errback path in Twisted, so only the
value decides which chain runs).  `W.log` is the list of Deferred firings that have been executed.

The application is modelled too, as far as it can re-enter the façade: a Deferred may carry a
*reaction* — a list of further API calls (`get_*()` / `close()`) performed from inside its callback,
i.e. in the middle of an eventual-queue turn (`d.addCallback(lambda _: w.get_message())`).
-/
namespace WV.Observer

/-- what a Deferred is fired with: a plain value, `Failure(exc e)` (the exception given to
    `closed`), or `Failure(WormholeClosed(r))` -/
inductive Res where
  | val (v : Nat)
  | exc (e : Nat)
  | wclosed (r : Nat)
  deriving DecidableEq, Repr

/-- `isinstance(x, Failure)` -/
def Res.isFailure : Res → Bool
  | .val _ => false
  | _ => true

theorem Res.isFailure_exc (e : Nat) : (Res.exc e).isFailure = true := rfl
theorem Res.isFailure_wclosed (r : Nat) : (Res.wclosed r).isFailure = true := rfl

/-- one entry of `EventualQueue._calls` -/
structure Call where
  d : Nat
  res : Res
  deriving DecidableEq, Repr

/-! ## eventual.py -/

structure EQ where
  calls : List Call := []
  /-- `self._timer` is set (a `callLater(0, self._turn)` is outstanding) -/
  timer : Bool := false
  deriving DecidableEq, Repr

/-- `EventualQueue.eventually` -/
def EQ.eventually (q : EQ) (c : Call) : EQ :=
  { calls := q.calls ++ [c], timer := if !q.timer then true else q.timer }

/-! ## observer.py : OneShotObserver -/

structure OneShot where
  /-- `None` = the `NoResult` marker -/
  result : Option Res := none
  observers : List Nat := []
  deriving DecidableEq, Repr

/-- `for d in observers: self._eq.eventually(d.callback, self._result)` -/
def scheduleAll (r : Res) : List Nat → EQ → EQ
  | [], q => q
  | d :: ds, q => scheduleAll r ds (q.eventually ⟨d, r⟩)

def OneShot.maybeCallObservers (o : OneShot) (q : EQ) : OneShot × EQ :=
  match o.result with
  | none => (o, q)
  | some r => ({ o with observers := [] }, scheduleAll r o.observers q)

/-- `when_fired`; `d` is the new Deferred -/
def OneShot.whenFired (o : OneShot) (d : Nat) (q : EQ) : OneShot × EQ :=
  ({ o with observers := o.observers ++ [d] }).maybeCallObservers q

/-- `fire`; the `assert self._result is NoResult` is a precondition -/
def OneShot.fire (o : OneShot) (r : Res) (_h : o.result = none) (q : EQ) : OneShot × EQ :=
  ({ o with result := some r }).maybeCallObservers q

/-- `error`; the `assert isinstance(f, Failure)` is a precondition.  Overrides an existing result. -/
def OneShot.error (o : OneShot) (f : Res) (_h : f.isFailure = true) (q : EQ) : OneShot × EQ :=
  ({ o with result := some f }).maybeCallObservers q

def OneShot.fireIfNotFired (o : OneShot) (r : Res) (q : EQ) : OneShot × EQ :=
  if h : o.result = none then o.fire r h q else (o, q)

/-! ## observer.py : SequenceObserver -/

structure SeqObs where
  error : Option Res := none
  results : List Nat := []
  observers : List Nat := []
  deriving DecidableEq, Repr

/-- `when_next_event`; `d` is the new Deferred.  `_error` is looked at first. -/
def SeqObs.whenNextEvent (s : SeqObs) (d : Nat) (q : EQ) : SeqObs × EQ :=
  match s.error with
  | some e => (s, q.eventually ⟨d, e⟩)
  | none =>
    match s.results with
    | r :: rest => ({ s with results := rest }, q.eventually ⟨d, .val r⟩)
    | [] => ({ s with observers := s.observers ++ [d] }, q)

/-- `fire` -/
def SeqObs.fire (s : SeqObs) (result : Res) (q : EQ) : SeqObs × EQ :=
  match result with
  | .val v =>
    -- self._results.append(result)
    let rs := s.results ++ [v]
    match s.observers with
    | d :: ds =>
      -- d = self._observers.pop(0); eventually(d.callback, self._results.pop(0))
      ({ s with observers := ds, results := rs.tail },
       q.eventually ⟨d, .val (rs.head (by simp [rs]))⟩)
    | [] => ({ s with results := rs }, q)
  | f =>
    ({ s with error := some f, observers := [] }, scheduleAll f s.observers q)

/-! ## wormhole.py : _DeferredWormhole -/

/-- the six `OneShotObserver`s of the façade -/
inductive OS where
  | welcome | code | key | verifier | versions | closed
  deriving DecidableEq, Repr

/-- what an API call asks for: `get_welcome/get_code/get_unverified_key/get_verifier/get_versions`,
    `close()` (`.os .closed`) or `get_message()` -/
inductive Kind where
  | os (o : OS)
  | message
  deriving DecidableEq, Repr

/-- the five `got_*` callbacks from the Boss -/
inductive Ev where
  | welcome | code | key | verifier | versions
  deriving DecidableEq, Repr

def Ev.os : Ev → OS
  | .welcome => .welcome
  | .code => .code
  | .key => .key
  | .verifier => .verifier
  | .versions => .versions

/-- a Deferred handed to the application: which call returned it, and what the application does
    (further API calls) inside its callback -/
structure Reg where
  kind : Kind
  react : List Kind
  deriving DecidableEq, Repr

/-- an executed `d.callback(res)`; `dup` = it raised `AlreadyCalledError` -/
structure Fire where
  call : Call
  dup : Bool
  deriving DecidableEq, Repr

structure W where
  os : OS → OneShot := fun _ => {}
  received : SeqObs := {}
  closed : Bool := false
  eq : EQ := {}
  regs : List Reg := []
  log : List Fire := []
  /-- number of `self._boss.close()` calls -/
  bossClose : Nat := 0

def W.init : W := {}

def W.setOS (w : W) (o : OS) (x : OneShot × EQ) : W :=
  { w with os := fun o' => if o' = o then x.1 else w.os o', eq := x.2 }

def W.setRecv (w : W) (x : SeqObs × EQ) : W :=
  { w with received := x.1, eq := x.2 }

/-- `get_*()` / `close()`; the new Deferred is number `w.regs.length` -/
def W.call (w : W) (k : Kind) (react : List Kind) : W :=
  let d := w.regs.length
  let w := { w with regs := w.regs ++ [Reg.mk k react] }
  match k with
  | .message => w.setRecv (w.received.whenNextEvent d w.eq)
  | .os o =>
    let w := w.setOS o ((w.os o).whenFired d w.eq)
    -- close(): `if not self._closed: self._boss.close()`
    if o = .closed && !w.closed then { w with bossClose := w.bossClose + 1 } else w

def W.got (w : W) (e : Ev) (v : Nat) : W :=
  w.setOS e.os ((w.os e.os).fireIfNotFired (.val v) w.eq)

def W.recv (w : W) (v : Nat) : W :=
  w.setRecv (w.received.fire (.val v) w.eq)

def W.errorOS (w : W) (o : OS) (f : Res) (h : f.isFailure = true) : W :=
  w.setOS o ((w.os o).error f h w.eq)

/-- the common tail of `closed`: five `error(f)` calls, then `_received_observer.fire(f)` -/
def W.closedTail (w : W) (f : Res) (h : f.isFailure = true) : W :=
  let w := w.errorOS .welcome f h
  let w := w.errorOS .code f h
  let w := w.errorOS .key f h
  let w := w.errorOS .verifier f h
  let w := w.errorOS .versions f h
  w.setRecv (w.received.fire f w.eq)

/-- `closed(result)` with `isinstance(result, Exception)` -/
def W.closedExc (w : W) (e : Nat) : W :=
  let w := { w with closed := true }
  let w := w.errorOS .closed (.exc e) (Res.isFailure_exc e)
  w.closedTail (.exc e) (Res.isFailure_exc e)

/-- `closed(result)` with a non-exception result (e.g. "happy") -/
def W.closedOk (w : W) (r : Nat) : W :=
  let w := { w with closed := true }
  let w := w.setOS .closed ((w.os .closed).fireIfNotFired (.val r) w.eq)
  w.closedTail (.wclosed r) (Res.isFailure_wclosed r)

/-- operations other than an eventual-queue turn -/
inductive BOp where
  | call (k : Kind) (react : List Kind)
  | got (e : Ev) (v : Nat)
  | received (v : Nat)
  | closedOk (r : Nat)
  | closedExc (e : Nat)
  deriving DecidableEq, Repr

def bstep (w : W) : BOp → W
  | .call k react => w.call k react
  | .got e v => w.got e v
  | .received v => w.recv v
  | .closedOk r => w.closedOk r
  | .closedExc e => w.closedExc e

/-! ## an eventual-queue turn -/

/-- `Deferred.called` -/
def W.fired (w : W) (d : Nat) : Bool := w.log.any (fun f => f.call.d == d)

/-- the application's callback on Deferred `d` (an unknown `d` cannot occur, see `WF`) -/
def W.reactOf (w : W) (d : Nat) : List Kind :=
  match w.regs[d]? with
  | some r => r.react
  | none => []

def runReact (w : W) : List Kind → W
  | [] => w
  | k :: ks => runReact (w.call k []) ks

/-- `f(*args)` for one entry of `to_call`: `d.callback(res)`, which runs the application's
    callbacks synchronously; a second firing raises `AlreadyCalledError` (logged by `_turn`) -/
def W.runCall (w : W) (c : Call) : W :=
  if w.fired c.d then { w with log := w.log ++ [⟨c, true⟩] }
  else runReact { w with log := w.log ++ [⟨c, false⟩] } (w.reactOf c.d)

def runCalls (w : W) : List Call → W
  | [] => w
  | c :: cs => runCalls (w.runCall c) cs

def W.setTimer (w : W) (b : Bool) : W := { w with eq := { w.eq with timer := b } }

def W.takeCalls (w : W) : W := { w with eq := { w.eq with calls := [] } }

/-- one reactor iteration at time 0: if the `callLater(0, self._turn)` is outstanding, `_turn`
    runs.  `_calls` is swapped for `[]` first, so calls added meanwhile stay for the next turn;
    `_timer` is still set while the calls run. -/
def W.turn (w : W) : W :=
  if !w.eq.timer then w else
  -- self._calls, to_call = [], self._calls
  let toCall := w.eq.calls
  let w1 := runCalls w.takeCalls toCall
  -- self._timer = None
  let w2 := w1.setTimer false
  -- if len(self._calls): self._timer = self._clock.callLater(0, self._turn)
  if w2.eq.calls.length != 0 then w2.setTimer true else w2

inductive Op where
  | b (o : BOp)
  | turn
  deriving DecidableEq, Repr

def step (w : W) : Op → W
  | .b o => bstep w o
  | .turn => w.turn

def run (w : W) : List Op → W
  | [] => w
  | o :: os => run (step w o) os

/-! ## line protocol

  call <kind> [<kind> …]   API call (welcome code key verifier versions message close); further
                           kinds = calls made from inside the new Deferred's callback   → `d<i> q<n> [boss_close]`
  got <ev> <n>             got_welcome/got_code/got_key/got_verifier/got_versions(v<n>) → `q<n>`
  received <n>             received(v<n>)                                               → `q<n>`
  closed ok <n> | closed exc <n>                                                         → `q<n>`
  turn                     one reactor iteration → the firings `d<i>:cb:v<n>` / `d<i>:eb:WC<n>` /
                           `d<i>:eb:E<n>` / `d<i>:AlreadyCalledError` then `q<n>`; `idle` if no timer
-/

def parseKind? : String → Option Kind
  | "welcome" => some (.os .welcome)
  | "code" => some (.os .code)
  | "key" => some (.os .key)
  | "verifier" => some (.os .verifier)
  | "versions" => some (.os .versions)
  | "close" => some (.os .closed)
  | "message" => some .message
  | _ => none

def parseEv? : String → Option Ev
  | "welcome" => some .welcome
  | "code" => some .code
  | "key" => some .key
  | "verifier" => some .verifier
  | "versions" => some .versions
  | _ => none

def parseOp? (ts : List String) : Option Op :=
  match ts with
  | ["turn"] => some .turn
  | "call" :: k :: react => do
    let k ← parseKind? k
    let r ← react.mapM parseKind?
    pure (.b (.call k r))
  | ["got", e, v] => do
    let e ← parseEv? e
    let v ← v.toNat?
    pure (.b (.got e v))
  | ["received", v] => do
    let v ← v.toNat?
    pure (.b (.received v))
  | ["closed", "ok", v] => do
    let v ← v.toNat?
    pure (.b (.closedOk v))
  | ["closed", "exc", v] => do
    let v ← v.toNat?
    pure (.b (.closedExc v))
  | _ => none

def showRes : Res → String
  | .val v => s!"cb:v{v}"
  | .exc e => s!"eb:E{e}"
  | .wclosed r => s!"eb:WC{r}"

def showFire (f : Fire) : String :=
  if f.dup then s!"d{f.call.d}:AlreadyCalledError" else s!"d{f.call.d}:{showRes f.call.res}"

def showOp (w w' : W) : Op → String
  | .b (.call _ _) =>
    s!"d{w.regs.length} q{w'.eq.calls.length}" ++ (if w'.bossClose != w.bossClose then " boss_close" else "")
  | .b _ => s!"q{w'.eq.calls.length}"
  | .turn =>
    if !w.eq.timer then "idle" else
    let fs := (w'.log.drop w.log.length).map showFire
    " ".intercalate (fs ++ [s!"q{w'.eq.calls.length}"])

def dstep (w : W) (line : String) : W × String :=
  match tokens line with
  | ["reset"] => (W.init, "ok")
  | ts =>
    match parseOp? ts with
    | some op => let w' := step w op; (w', showOp w w' op)
    | none => (w, "bad-op")

def driver (lines : List String) : List String := runLines dstep W.init lines

end WV.Observer
