import WV.Model.Basic
import WV.Gen.Consts
import WV.Gen.Skel

/-!
C04 — a completed transfer is byte-exact; success is never reported otherwise.

Model (`Xfer`) of
* `cli/cmd_send.py`   `Sender._send_file` (FileSender chunking, running hash, ack check) and the
                      text branch of `Sender._handle_answer`;
* `cli/cmd_receive.py` `Receiver._parse_offer` (file / directory branch): `_handle_file`'s
                      `open(dest + ".tmp")`, `_transfer_data`, `_write_file`, `_write_directory`,
                      `_close_transit`;
* `transit.py`        `Connection.recordReceived / connectConsumer / _writeToConsumer /
                      disconnectConsumer / connectionLost / writeToFile`, `FileConsumer.write`.

The encrypted record stream between the two `Connection`s is *not* modelled here: C06 establishes
that the receiving side is handed a prefix of the records the sending side wrote, whole and in
order, and then possibly a connection loss.  That is the hypothesis on the channel in the theorems
(`records evs <+: sent`), and the shape of the operations the driver accepts.

SHA-256 and zip/unzip are interfaces with their ideal property as a hypothesis (`Hash.Ideal`,
`Zip.Ideal`); `hashlib`'s streaming law (`update a; update b` ≡ `update (a+b)`) is built into the
model: a hasher's state is the concatenation of everything it was fed.
-/
namespace WV.C04
open WV WV.Gen

/-! ## external behaviour as interfaces -/

structure Hash where
  sha : Bytes → Bytes

/-- collision freedom, as injectivity -/
def Hash.Ideal (H : Hash) : Prop := ∀ a b, H.sha a = H.sha b → a = b

/-- `zipstream` on the sending side, `zipfile` extraction on the receiving side; `τ` = directory trees -/
structure Zip (τ : Type) where
  zip : τ → Bytes
  /-- `none` = the extraction raises: `zipfile.BadZipFile`, the `ValueError` of `_extract_file`'s guard, or an
      `OSError` from creating a member (`zf.extract` / `os.chmod` are not guarded) -/
  unzip : Bytes → Option τ
  /-- what a failing extraction has already put below the destination when it raises (members are unpacked
      one by one, nothing is rolled back); `none` = nothing was created -/
  partialTree : Bytes → Option τ := fun _ => none

def Zip.Ideal {τ : Type} (Z : Zip τ) : Prop := ∀ t, Z.unzip (Z.zip t) = some t

inductive Err where
  | connectionClosed    -- twisted.internet.error.ConnectionClosed
  | transferError       -- wormhole.errors.TransferError
  | assertionError
  | badZipFile          -- zipfile.BadZipFile
  | decodeError         -- bytes_to_dict / .get on something that is not a JSON object
  | keyError
  deriving DecidableEq, Repr

def Err.name : Err → String
  | .connectionClosed => "ConnectionClosed" | .transferError => "TransferError"
  | .assertionError => "AssertionError" | .badZipFile => "BadZipFile"
  | .decodeError => "DecodeError" | .keyError => "KeyError"

/-- state of a Deferred as its owner sees it -/
inductive Outcome where
  | pending | success | failed (e : Err)
  deriving DecidableEq, Repr

def Outcome.name : Outcome → String
  | .pending => "pending" | .success => "ok" | .failed e => e.name

/-- what exists at `abs_destname` -/
inductive Node (τ : Type) where
  | file (b : Bytes)
  | dir (t : τ)
  deriving DecidableEq

/-- the `sha256` member of an ack: missing, the hex of some digest, or any other JSON value -/
inductive ShaField where
  | absent | digest (d : Bytes) | junk
  deriving DecidableEq, Repr

/-- the ack record after `bytes_to_dict`: not a JSON object at all, or an object with an optional
    `"ack"` string and the `sha256` member -/
inductive AckMsg where
  | garbage
  | dict (ack : Option String) (sha : ShaField)
  deriving DecidableEq, Repr

/-- the Deferred returned by `connectConsumer` -/
inductive DSt where
  | absent | waiting | fired (n : Nat) | errback
  deriving DecidableEq, Repr

/-! ## sender: `Sender._send_file` -/

/-- `FileSender.resumeProducing` until the read comes back empty: `chunk = file.read(CHUNK_SIZE)`,
    `if not chunk: done`.  `fuel` bounds the number of reads; `m.length` reads always suffice
    (`Proofs.C04.chunksOf_flatten`). -/
def chunksOf (k : Nat) : Nat → Bytes → List Bytes
  | 0, _ => []
  | fuel + 1, m =>
    let c := m.take k
    if c.isEmpty then [] else c :: chunksOf k fuel (m.drop k)

structure Tx where
  records : List Bytes     -- what `record_pipe.write` was called with, in order
  hashed : Bytes           -- everything `hasher.update` was fed

/-- `_send_file` up to "File sent.. waiting for confirmation".  `src` = the bytes the sender reads
    from `self._fd_to_send`; `filesize = len(src)`; `if filesize:` guards the whole transfer. -/
def sendFile (k : Nat) (src : Bytes) : Tx :=
  if src.length = 0 then { records := [], hashed := [] }
  else
    let cs := chunksOf k src.length src
    -- transform=_count_and_hash: hasher.update(chunk) for every chunk, then consumer.write(chunk)
    { records := cs, hashed := cs.foldl (· ++ ·) [] }

/-- the tail of `_send_file`: `ack_bytes = yield record_pipe.receive_record()` (errbacks with
    ConnectionClosed when the connection goes away first = `none`), then the two checks. -/
def checkAck (H : Hash) (hashed : Bytes) : Option AckMsg → Outcome
  | none => .failed .connectionClosed
  | some .garbage => .failed .decodeError
  | some (.dict a sha) =>
    if a ≠ some "ok" then .failed .transferError          -- ack.get("ack", "") != "ok"
    else match sha with
      | .absent => .success                                 -- `if "sha256" in ack:` not taken
      | .junk => .failed .transferError                     -- some value that is not the hex string
      | .digest d => if d ≠ H.sha hashed then .failed .transferError else .success

/-- text branch of `_handle_answer`: `them_answer["message_ack"] == "ok"` -/
def checkTextAck : Option String → Outcome
  | none => .failed .keyError
  | some a => if a = "ok" then .success else .failed .transferError

/-! ## receiver: `Connection` in consumer mode + `Receiver._parse_offer` -/

structure Rx (τ : Type) where
  xfersize : Nat
  dirMode : Bool
  -- transit.Connection
  inbound : List Bytes := []        -- _inbound_records
  consumer : Bool := false          -- _consumer is not None
  written : Nat := 0                -- _consumer_bytes_written
  expected : Option Nat := none     -- _consumer_bytes_expected
  cdef : Bool := false              -- _consumer_deferred is not None
  dfr : DSt := .absent              -- the Deferred object handed to _transfer_data
  connLost : Bool := false          -- connectionLost() has run
  -- FileConsumer(f, progress, hasher)
  spool : Bytes := []               -- bytes handed to f.write, in order
  disk : Bytes := []                -- content of the file behind f (dest+".tmp", or the SpooledTemporaryFile)
  hashed : Bytes := []              -- hasher input
  -- filesystem
  tmpExists : Bool := false         -- dest+".tmp" exists
  final : Option (Node τ) := none   -- what is at abs_destname
  -- Receiver._parse_offer
  started : Bool := false           -- _transfer_data has called writeToFile
  result : Outcome := .pending      -- the Deferred of _parse_offer
  acks : List AckMsg := []          -- records sent back on the pipe
  closed : Bool := false            -- record_pipe.close()

/-- `f.write(r)` at position `pos` of a file whose content is `d`: overwrite in place, extend at the end -/
def fileWrite (d : Bytes) (pos : Nat) (r : Bytes) : Bytes :=
  d.take pos ++ r ++ d.drop (pos + r.length)

/-- `_handle_file`: `open(abs_destname + ".tmp", "wb")`; `_handle_directory`: a fresh
    SpooledTemporaryFile (nothing on disk under the destination).  `_decide_destname` has made sure
    nothing exists at the destination (C05), but a `dest+".tmp"` may be lying around from an
    earlier, interrupted transfer: `stale` is its content.  Mode `"wb"` truncates, so whatever was
    there is gone: the file starts empty.  (Opening without truncation would be `disk := stale`.) -/
def rxOpen {τ : Type} (xfersize : Nat) (dirMode : Bool) (stale : Option Bytes) : Rx τ :=
  let _ := stale
  { xfersize := xfersize, dirMode := dirMode, tmpExists := !dirMode, disk := [] }

/-- `_writeToConsumer(record)` with `FileConsumer.write` inlined -/
def writeToConsumer {τ : Type} (s : Rx τ) (r : Bytes) : Rx τ :=
  let s1 := { s with disk := fileWrite s.disk s.spool.length r, spool := s.spool ++ r, hashed := s.hashed ++ r }
  let s2 := { s1 with written := s1.written + r.length }
  match s2.expected with
  | none => s2
  | some e =>
    if s2.written ≥ e then
      -- d = self._consumer_deferred; self.disconnectConsumer(); d.callback(written)
      { s2 with consumer := false, expected := none, cdef := false, dfr := .fired s2.written }
    else s2

/-- `recordReceived(record)` -/
def recordReceived {τ : Type} (s : Rx τ) (r : Bytes) : Rx τ :=
  if s.consumer then writeToConsumer s r
  else { s with inbound := s.inbound ++ [r] }

/-- `while self._consumer and self._inbound_records: self._writeToConsumer(popleft())` -/
def drain {τ : Type} : Rx τ → List Bytes → Rx τ
  | s, [] => { s with inbound := [] }
  | s, r :: rest =>
    if s.consumer then drain (writeToConsumer s r) rest
    else { s with inbound := r :: rest }

/-- `connectConsumer(consumer, expected)` (the RuntimeError for a second consumer cannot be reached:
    `_transfer_data` runs once per Receiver, see `evConnect`) -/
def connectConsumer {τ : Type} (s : Rx τ) (expected : Nat) : Rx τ :=
  let s1 := { s with consumer := true, written := 0, expected := some expected, cdef := true, dfr := .waiting }
  let s2 := if expected = 0 then writeToConsumer s1 [] else s1
  drain s2 s2.inbound

/-- `connectionLost`: `if self._consumer_deferred: errback(ConnectionClosed())` -/
def connectionLost {τ : Type} (s : Rx τ) : Rx τ :=
  let s1 := { s with connLost := true }
  if s1.cdef then { s1 with dfr := .errback } else s1

/-- `_write_file`: `f.close(); os.rename(tmp_name, self.abs_destname)` -/
def writeFile {τ : Type} (s : Rx τ) : Rx τ :=
  { s with tmpExists := false, final := some (.file s.disk) }

/-- `_write_directory`: unpack the spooled zip below `abs_destname` -/
def writeDirectory {τ : Type} (Z : Zip τ) (s : Rx τ) : Except Err (Rx τ) :=
  match Z.unzip s.disk with
  | none => .error .badZipFile
  | some t => .ok { s with final := some (.dir t) }

/-- `_close_transit(record_pipe, datahash)` -/
def closeTransit {τ : Type} (s : Rx τ) (datahash : Bytes) : Rx τ :=
  { s with acks := s.acks ++ [.dict (some "ok") (.digest datahash)], closed := true, result := .success }

/-- what `_parse_offer` does once `yield record_pipe.writeToFile(...)` has a result: the rest of
    `_transfer_data`, then `_write_file` / `_write_directory`, then `_close_transit`, in the order
    of the generated skeleton (`Props.C04.parse_offer_order`). -/
def transferTail {τ : Type} (H : Hash) (Z : Zip τ) (s : Rx τ) : Rx τ :=
  match s.dfr with
  | .errback => { s with result := .failed .connectionClosed }
  | .fired received =>
    let datahash := H.sha s.hashed                   -- hasher.digest()
    if received < s.xfersize then { s with result := .failed .transferError }
    else if received ≠ s.xfersize then { s with result := .failed .assertionError }
    else if s.dirMode then
      match writeDirectory Z s with
      | .error e => { s with result := .failed e, final := (Z.partialTree s.disk).map Node.dir }
      | .ok s1 => closeTransit s1 datahash
    else closeTransit (writeFile s) datahash
  | _ => s

/-- inlineCallbacks: the generator is resumed as soon as the Deferred it waits on has a result -/
def resume {τ : Type} (H : Hash) (Z : Zip τ) (s : Rx τ) : Rx τ :=
  match s.started, s.result with
  | true, .pending => transferTail H Z s
  | _, _ => s

/-- a record is handed to the receiving Connection -/
def evRecord {τ : Type} (H : Hash) (Z : Zip τ) (s : Rx τ) (r : Bytes) : Rx τ :=
  resume H Z (recordReceived s r)

/-- `_transfer_data` reaches `record_pipe.writeToFile(f, self.xfersize, …)` -/
def evConnect {τ : Type} (H : Hash) (Z : Zip τ) (s : Rx τ) : Rx τ :=
  if s.started then s
  else resume H Z { (connectConsumer s s.xfersize) with started := true }

/-- the connection goes away -/
def evLost {τ : Type} (H : Hash) (Z : Zip τ) (s : Rx τ) : Rx τ :=
  resume H Z (connectionLost s)

inductive Ev where
  | record (r : Bytes) | connect | lost

def evStep {τ : Type} (H : Hash) (Z : Zip τ) (s : Rx τ) : Ev → Rx τ
  | .record r => evRecord H Z s r
  | .connect => evConnect H Z s
  | .lost => evLost H Z s

/-- the receiver after any sequence of events -/
def runRx {τ : Type} (H : Hash) (Z : Zip τ) (xfersize : Nat) (dirMode : Bool) (stale : Option Bytes) (evs : List Ev) : Rx τ :=
  evs.foldl (evStep H Z) (rxOpen xfersize dirMode stale)

/-- the records among the events, in order -/
def records : List Ev → List Bytes
  | [] => []
  | .record r :: es => r :: records es
  | _ :: es => records es

/-- what the sender's `receive_record()` yields when the reverse direction delivers a prefix of
    what the receiver wrote and then closes: the receiver's first record, or ConnectionClosed -/
def ackSeen {τ : Type} (s : Rx τ) (delivered : Bool) : Option AckMsg :=
  if delivered then s.acks.head? else none

/-! ## driver (line protocol)

```
rx file|dir <xfersize> [refuse]   -> summary          (_handle_file / _handle_directory opened f; refuse = the
                                                       extraction will reject the archive)
rx file <xfersize> stale <len>    -> summary          (the same, with a dest+".tmp" of <len> bytes already there)
send <hex src>                    -> n=<records> lens=<l1,l2,…|-> adler=<adler32 of everything hashed>
deliver <n>                       -> summary          (the next n records of the model sender reach the receiver)
rec <hex>…                        -> summary          (explicit records reach the receiver)
connect | lost                    -> summary
ackhonest                         -> sender outcome on the first ack the model receiver sent (or ConnectionClosed)
ack none|garbage                  -> sender outcome
ack dict <none|s:hex> <none|junk|of:hex>   -> sender outcome   (of:X = the hex digest of X)
textack <none|s:hex>              -> sender outcome (text branch of _handle_answer)
```
The driver's hash is the identity (injective), its zip codec the identity.
-/

def toyHash : Hash := { sha := fun b => b }
def toyZip : Zip Bytes := { zip := fun t => t, unzip := fun b => some b }
/-- an archive the extraction refuses (`_extract_file` raises, or zipfile does) -/
def toyZipRefuse : Zip Bytes := { zip := fun t => t, unzip := fun _ => none }
/-- … after some members have been unpacked -/
def toyZipRefusePartial : Zip Bytes := { zip := fun t => t, unzip := fun _ => none, partialTree := fun b => some b }

def adler32 (b : Bytes) : Nat :=
  let (a, c) := b.foldl (fun (p : Nat × Nat) x => let a := (p.1 + x) % 65521; (a, (p.2 + a) % 65521)) (1, 0)
  c * 65536 + a

def b01 (b : Bool) : String := if b then "1" else "0"

def showFinal : Option (Node Bytes) → String
  | none => "none"
  | some (.file b) => s!"file:{b.length}:{adler32 b}"
  | some (.dir _) => "dir"

def showRx (s : Rx Bytes) : String :=
  s!"cons={b01 s.consumer} written={s.written} queued={s.inbound.length} started={b01 s.started} result={s.result.name} tmp={b01 s.tmpExists} final={showFinal s.final} acks={s.acks.length} closed={b01 s.closed}"

structure DrvSt where
  rx : Rx Bytes
  pending : List Bytes     -- records of the model sender not yet delivered
  hashed : Bytes
  refuse : Bool            -- the extraction will refuse the archive (`rx dir <n> refuse`)
  partialX : Bool          -- … after having unpacked some members (`rx dir <n> refuse partial`)

def drvInit : DrvSt := { rx := rxOpen 0 false none, pending := [], hashed := [], refuse := false, partialX := false }

def DrvSt.zip (s : DrvSt) : Zip Bytes :=
  if s.refuse then (if s.partialX then toyZipRefusePartial else toyZipRefuse) else toyZip

def readStrField? (t : String) : Option (Option String) :=
  if t == "none" then some none
  else if t.startsWith "s:" then (strOfHex? (String.ofList (t.toList.drop 2))).map some
  else none

def readShaField? (t : String) : Option ShaField :=
  if t == "none" then some .absent
  else if t == "junk" then some .junk
  else if t.startsWith "of:" then (fromHex? (String.ofList (t.toList.drop 3))).map (fun b => .digest (toyHash.sha b))
  else none

def showLens (l : List Bytes) : String :=
  if l.isEmpty then "-" else ",".intercalate (l.map (fun r => toString r.length))

def step (s : DrvSt) (line : String) : DrvSt × String :=
  match tokens line with
  | ["reset"] => (drvInit, "ok")
  | ["rx", mode, n] =>
    match n.toNat? with
    | some x =>
      let rx : Rx Bytes := rxOpen x (mode == "dir") none
      ({ s with rx := rx, refuse := false, partialX := false }, showRx rx)
    | none => (s, "bad-op")
  | ["rx", "file", n, "stale", l] =>
    match n.toNat?, l.toNat? with
    | some x, some len =>
      let rx : Rx Bytes := rxOpen x false (some (List.replicate len 170))
      ({ s with rx := rx, refuse := false, partialX := false }, showRx rx)
    | _, _ => (s, "bad-op")
  | ["rx", "dir", n, "refuse"] =>
    match n.toNat? with
    | some x =>
      let rx : Rx Bytes := rxOpen x true none
      ({ s with rx := rx, refuse := true, partialX := false }, showRx rx)
    | none => (s, "bad-op")
  | ["rx", "dir", n, "refuse", "partial"] =>
    match n.toNat? with
    | some x =>
      let rx : Rx Bytes := rxOpen x true none
      ({ s with rx := rx, refuse := true, partialX := true }, showRx rx)
    | none => (s, "bad-op")
  | ["send", h] =>
    match fromHex? h with
    | some src =>
      let tx := sendFile Consts.FILESENDER_CHUNK_SIZE src
      ({ s with pending := tx.records, hashed := tx.hashed },
       s!"n={tx.records.length} lens={showLens tx.records} adler={adler32 tx.hashed}")
    | none => (s, "bad-op")
  | ["deliver", n] =>
    match n.toNat? with
    | some k =>
      if k ≤ s.pending.length then
        let rx := (s.pending.take k).foldl (evRecord toyHash s.zip) s.rx
        ({ s with rx := rx, pending := s.pending.drop k }, showRx rx)
      else (s, "bad-op")
    | none => (s, "bad-op")
  | "rec" :: hs =>
    match hs.mapM fromHex? with
    | some rs =>
      let rx := rs.foldl (evRecord toyHash s.zip) s.rx
      ({ s with rx := rx }, showRx rx)
    | none => (s, "bad-op")
  | ["connect"] => let rx := evConnect toyHash s.zip s.rx; ({ s with rx := rx }, showRx rx)
  | ["lost"] => let rx := evLost toyHash s.zip s.rx; ({ s with rx := rx }, showRx rx)
  | ["ackhonest"] => (s, (checkAck toyHash s.hashed (ackSeen s.rx true)).name)
  | ["ack", "none"] => (s, (checkAck toyHash s.hashed none).name)
  | ["ack", "garbage"] => (s, (checkAck toyHash s.hashed (some .garbage)).name)
  | ["ack", "dict", a, h] =>
    match readStrField? a, readShaField? h with
    | some af, some sf => (s, (checkAck toyHash s.hashed (some (.dict af sf))).name)
    | _, _ => (s, "bad-op")
  | ["textack", a] =>
    match readStrField? a with
    | some af => (s, (checkTextAck af).name)
    | none => (s, "bad-op")
  | _ => (s, "bad-op")

def driver (lines : List String) : List String := runLines step drvInit lines

end WV.C04
