import WV.Model.Basic
import WV.Gen.Words
import WV.Gen.Consts
import WV.Gen.T_Input
import WV.Gen.T_Code
import WV.Gen.T_Allocator
import WV.Gen.Flags

/-!
C19 — codes are well-formed with the promised entropy; code entry is consistent.

Model of `src/wormhole/_wordlist.py` (`PGPWordList.choose_words`, `get_completions`),
`_nameplate.py` (`validate_nameplate`), `_code.py` (`validate_code`, the `Code` machine),
`_allocator.py` (the `Allocator` machine, `build_and_notify`), `_input.py` (the `Input` machine
and its `Helper`) and the three code-entry methods of `_boss.py` with their `_did_start_code`
latch.  The three Automat tables and the word tables are the *generated* ones; this file gives
the output bodies.

Python `str` is a sequence of Unicode code points: `Str = List Nat`.  `'-'` is 45, `' '` is 32,
`'\n'` is 10.

`\d` in a `str` pattern matches the characters for which `str.isdecimal()` holds (Unicode
category Nd), not only ASCII `0-9`.  Everything here is parameterised by the digit predicate
`isD : Nat → Bool`; the driver instantiates it with `isNd`, the membership test in the
*generated* range table `Consts.unicode_decimal_ranges` (computed by the translator from the
interpreter that runs the real code and compared with `re` itself by the harness).
-/
namespace WV.C19
open WV WV.Gen

abbrev Str := List Nat

/-! ## `str.split("-")`, `str.count("-")`, `"-".join` -/

/-- `s.split("-")` -/
def splitHy : Str → List Str
  | [] => [[]]
  | c :: cs =>
    if c = 45 then [] :: splitHy cs
    else match splitHy cs with
      | w :: ws => (c :: w) :: ws
      | [] => [[c]]          -- unreachable: `splitHy_ne_nil`

theorem splitHy_ne_nil (s : Str) : splitHy s ≠ [] := by
  cases s with
  | nil => simp [splitHy]
  | cons c cs =>
    unfold splitHy
    split
    · simp
    · split <;> simp

/-- `s.split("-")[-1]` -/
def lastPart (s : Str) : Str := (splitHy s).getLast (splitHy_ne_nil s)

/-- `s.split("-", 2)[0]` (the first field does not depend on `maxsplit ≥ 1`) -/
def firstPart (s : Str) : Str := (splitHy s).head (splitHy_ne_nil s)

/-- `"-".join(words)` -/
def joinHy : List Str → Str
  | [] => []
  | [w] => w
  | w :: ws => w ++ 45 :: joinHy ws

/-! ## `PGPWordList.choose_words` as a function of the bytes `os.urandom(1)` returns -/

/-- `byte_to_odd_word[b].lower()` for even `i`, `byte_to_even_word[b].lower()` for odd `i`;
    `none` = `KeyError` (impossible for a byte) -/
def wordAt (i b : Nat) : Option Str :=
  if i % 2 = 0 then Words.oddCP[b]? else Words.evenCP[b]?

/-- the `for i in range(length)` loop from index `i` on, one random byte per word -/
def chooseListFrom : Nat → List Nat → Option (List Str)
  | _, [] => some []
  | i, b :: bs =>
    match wordAt i b, chooseListFrom (i + 1) bs with
    | some w, some r => some (w :: r)
    | _, _ => none

/-- `choose_words(len rs)` when `os.urandom(1)` returns the bytes `rs` in turn -/
def chooseWordsOf (rs : List Nat) : Option Str := (chooseListFrom 0 rs).map joinHy

/-- `choose_words(length)` against an entropy stream; `none` if the stream is too short
    (cannot happen with `os.urandom`; the driver never lets it happen) -/
def chooseWords (length : Nat) (rand : List Nat) : Option Str :=
  if rand.length < length then none else chooseWordsOf (rand.take length)

/-! ## `PGPWordList.get_completions` -/

/-- the word set iterated for a prefix with `count` hyphens: odd words first -/
def completionWords (count : Nat) : List Str :=
  if count % 2 = 0 then Words.oddSetCP else Words.evenSetCP

/-- body of the `for word in words:` loop -/
def completionOf (pfx : Str) (numWords count : Nat) (last word : Str) : Option Str :=
  if last.isPrefixOf word then                     -- word.startswith(last_partial_word)
    let lp := last.length
    let suffix := (if lp = 0 then pfx else pfx.take (pfx.length - lp)) ++ word
    some (if count + 1 < numWords then suffix ++ [45] else suffix)
  else none

/-- `get_completions(prefix, num_words)`; the Python value is a set, here in table order -/
def getCompletions (pfx : Str) (numWords : Nat) : List Str :=
  let count := pfx.count 45
  (completionWords count).filterMap (completionOf pfx numWords count (lastPart pfx))

/-- one `PGPWordList` object asked the queries `(num_words, prefix)` one after the other (an interactive
    session: TAB, go back, change an earlier word, TAB again, …).  The class has no attributes and
    `get_completions` reads nothing but its two arguments, so the answers are those of the single queries:
    nothing is carried from one query to the next.  (A memo inside the real object has to be invisible here.) -/
def gcSession (qs : List (Nat × Str)) : List (List Str) :=
  qs.map fun q => getCompletions q.2 q.1

/-! ## `validate_nameplate` / `validate_code` -/

inductive Err where
  | keyFormat | onlyOneCode | noTransition
  | mustChooseNameplateFirst | alreadyChoseNameplate | alreadyChoseWords
  | assertion | typeError | attributeError | keyError
  | unknownRegex       -- the translator found a regex this model has no semantics for
  | alreadyInputNameplate   -- `_rlcompleter`: the line no longer carries the committed nameplate
  | unknownGuard       -- the translator found a guard in xfer_util this model has no semantics for
  deriving DecidableEq, Repr

def Err.name : Err → String
  | .keyFormat => "KeyFormatError" | .onlyOneCode => "OnlyOneCodeError"
  | .noTransition => "NoTransition"
  | .mustChooseNameplateFirst => "MustChooseNameplateFirstError"
  | .alreadyChoseNameplate => "AlreadyChoseNameplateError"
  | .alreadyChoseWords => "AlreadyChoseWordsError"
  | .assertion => "AssertionError" | .typeError => "TypeError"
  | .attributeError => "AttributeError" | .keyError => "KeyError"
  | .unknownRegex => "unknown-regex"
  | .alreadyInputNameplate => "AlreadyInputNameplateError"
  | .unknownGuard => "unknown-guard"

/-- the two nameplate regexes this model knows -/
inductive NpRegex where
  | dollar     -- `^\d+$`  : `$` also matches just before a final "\n"
  | bigZ       -- `^\d+\Z` : `\Z` matches only at the very end
  | unknown
  deriving DecidableEq, Repr

def npRegexOf : List String → NpRegex
  | [r] => if r = "^\\d+$" then .dollar else if r = "^\\d+\\Z" then .bigZ else .unknown
  | _ => .unknown

/-- the regex `validate_nameplate` uses in the working tree (extracted on every run) -/
def npRegex : NpRegex := npRegexOf Consts.nameplate_regexes

/-- `\d+` spans the whole of `s` -/
def allDigits (isD : Nat → Bool) (s : Str) : Bool := !s.isEmpty && s.all isD

/-- `re.search(rx, s) is not None` -/
def npMatch (isD : Nat → Bool) : NpRegex → Str → Option Bool
  | .bigZ, s => some (allDigits isD s)
  | .dollar, s => some (allDigits isD s || (s.getLast? == some 10 && allDigits isD s.dropLast))
  | .unknown, _ => none

def validateNameplateWith (rx : NpRegex) (isD : Nat → Bool) (s : Str) : Except Err Unit :=
  match npMatch isD rx s with
  | some true => .ok ()
  | some false => .error .keyFormat
  | none => .error .unknownRegex

def validateNameplate (isD : Nat → Bool) (s : Str) : Except Err Unit :=
  validateNameplateWith npRegex isD s

def validateCodeWith (rx : NpRegex) (rejectsSpace : Bool) (isD : Nat → Bool) (code : Str) : Except Err Unit :=
  if rejectsSpace && code.contains 32 then .error .keyFormat     -- `if ' ' in code`
  else validateNameplateWith rx isD (firstPart code)

def validateCode (isD : Nat → Bool) (code : Str) : Except Err Unit :=
  validateCodeWith npRegex Consts.validate_code_rejects_space isD code

/-- membership in the generated table of `str.isdecimal()` ranges (inclusive) -/
def inRanges : List (Nat × Nat) → Nat → Bool
  | [], _ => false
  | (lo, hi) :: rs, c => (Nat.ble lo c && Nat.ble c hi) || inRanges rs c

/-- Python's `\d` on `str` -/
def isNd (c : Nat) : Bool := inRanges Consts.unicode_decimal_ranges c

/-! ## Boss latch + Code + Allocator + Input -/

/-- calls made on the collaborators that are not modelled further -/
inductive Cmd where
  | nSetNameplate (np : Str)      -- `Nameplate.set_nameplate`
  | bGotCode (c : Str)            -- `Boss.got_code`  (→ `Wormhole.got_code`)
  | kGotCode (c : Str)            -- `Key.got_code`
  | lRefresh                      -- `Lister.refresh`
  | rcTxAllocate                  -- `RendezvousConnector.tx_allocate`
  | waitersFired (k : Nat)        -- `when_wordlist_is_available()` Deferreds fired
  deriving DecidableEq, Repr

structure St where
  latch : Bool                   -- `Boss._did_start_code`
  code : Code.State
  inp : Input.State
  alloc : Allocator.State
  allNameplates : List Str       -- `Input._all_nameplates`
  nameplate : Option Str         -- `Input._nameplate`
  wordlist : Bool                -- `Input._wordlist` is set
  waiters : Nat                  -- `len(Input._wordlist_waiters)`
  length : Option Nat            -- `Allocator._length`
  out : List Cmd                 -- every collaborator call so far, in order
  ret : Option (List Str)        -- value returned by the last call (completion sets)
  deriving DecidableEq, Repr

def init : St :=
  { latch := false, code := Code.init, inp := Input.init, alloc := Allocator.init,
    allNameplates := [], nameplate := none, wordlist := false, waiters := 0, length := none,
    out := [], ret := none }

/-- state after the call, and the exception it raised (the state keeps what was done before) -/
abbrev R := St × Option Err

def emit (c : Cmd) (s : St) : St := { s with out := s.out ++ [c] }

/-- Automat runs the outputs of a row in order; an exception skips the rest -/
def runOuts {O : Type} (f : O → St → R) : List O → St → R
  | [], s => (s, none)
  | o :: os, s =>
    match f o s with
    | (s', none) => runOuts f os s'
    | r => r

/-! ### Code -/

def fireCode (i : Code.Input) (f : Code.Output → St → R) (s : St) : R :=
  match Code.table s.code i with
  | none => (s, some .noTransition)
  | some (st', outs) => runOuts f outs { s with code := st' }

/-- outputs of the inputs that carry one string (`_set_code`, `got_nameplate`, `finished_input`) -/
def codeOut1 (arg : Str) : Code.Output → St → R
  | .do_set_code, s =>
    (emit (.kGotCode arg) (emit (.bGotCode arg) (emit (.nSetNameplate (firstPart arg)) s)), none)
  | .do_middle_input, s => (emit (.nSetNameplate arg) s, none)
  | .do_finish_input, s => (emit (.kGotCode arg) (emit (.bGotCode arg) s), none)
  | _, s => (s, some .typeError)

/-- outputs of `allocated(nameplate, code)` -/
def codeOutAllocated (np code : Str) : Code.Output → St → R
  | .do_finish_allocate, s =>
    if (np ++ [45]).isPrefixOf code then
      (emit (.kGotCode code) (emit (.bGotCode code) (emit (.nSetNameplate np) s)), none)
    else (s, some .assertion)
  | _, s => (s, some .typeError)

def codeAllocated (np code : Str) : St → R := fireCode .allocated (codeOutAllocated np code)
def codeGotNameplate (np : Str) : St → R := fireCode .got_nameplate (codeOut1 np)
def codeFinishedInput (code : Str) : St → R := fireCode .finished_input (codeOut1 code)

/-! ### Allocator -/

def fireAlloc (i : Allocator.Input) (f : Allocator.Output → St → R) (s : St) : R :=
  match Allocator.table s.alloc i with
  | none => (s, some .noTransition)
  | some (st', outs) => runOuts f outs { s with alloc := st' }

/-- outputs of `allocate(length, wordlist)` -/
def allocOutAllocate (n : Nat) : Allocator.Output → St → R
  | .stash, s => ({ s with length := some n }, none)
  | .stash_and_RC_rx_allocate, s => (emit .rcTxAllocate { s with length := some n }, none)
  | _, s => (s, some .typeError)

/-- outputs of `connected()` / `lost()` -/
def allocOut0 : Allocator.Output → St → R
  | .RC_tx_allocate, s => (emit .rcTxAllocate s, none)
  | _, s => (s, some .typeError)

/-- outputs of `rx_allocated(nameplate)`; `rand` = what `os.urandom(1)` will return -/
def allocOutRx (np : Str) (rand : List Nat) : Allocator.Output → St → R
  | .build_and_notify, s =>
    match s.length with
    | none => (s, some .attributeError)
    | some n =>
      match chooseWords n rand with
      | none => (s, some .keyError)
      | some words => codeAllocated np (np ++ 45 :: words) s
  | _, s => (s, some .typeError)

def allocAllocate (n : Nat) : St → R := fireAlloc .allocate (allocOutAllocate n)
def allocConnected : St → R := fireAlloc .connected allocOut0
def allocLost : St → R := fireAlloc .lost allocOut0
def allocRxAllocated (np : Str) (rand : List Nat) : St → R := fireAlloc .rx_allocated (allocOutRx np rand)

/-! ### Input (+ Helper) -/

def fireInput (i : Input.Input) (f : Input.Output → St → R) (s : St) : R :=
  match Input.table s.inp i with
  | none => (s, some .noTransition)
  | some (st', outs) => runOuts f outs { s with inp := st' }

/-- `Input._get_nameplate_completions` -/
def npCompletions (all : List Str) (pfx : Str) : List Str :=
  all.filterMap fun np => if pfx.isPrefixOf np then some (np ++ [45]) else none

/-- outputs of the inputs without arguments (`start`, `refresh_nameplates`) -/
def inputOut0 : Input.Output → St → R
  | .do_start, s => (emit .lRefresh s, none)
  | .do_refresh, s => (emit .lRefresh s, none)
  | .raise_already_chose_nameplate1, s => (s, some .alreadyChoseNameplate)
  | _, s => (s, some .typeError)

/-- outputs of `got_nameplates(all_nameplates)` -/
def inputOutGotNameplates (l : List Str) : Input.Output → St → R
  | .record_nameplates, s => ({ s with allNameplates := l }, none)
  | _, s => (s, some .typeError)

/-- outputs of `got_wordlist(wordlist)` -/
def inputOutGotWordlist : Input.Output → St → R
  | .record_wordlist, s => ({ s with wordlist := true }, none)
  | .notify_wordlist_waiters, s =>
    (if s.waiters = 0 then s else emit (.waitersFired s.waiters) { s with waiters := 0 }, none)
  | _, s => (s, some .typeError)

/-- outputs of the inputs that carry one string (`get_nameplate_completions`,
    `_choose_nameplate`, `get_word_completions`, `choose_words`) -/
def inputOut1 (arg : Str) : Input.Output → St → R
  | .u_get_nameplate_completions, s => ({ s with ret := some (npCompletions s.allNameplates arg) }, none)
  | .u_get_word_completions, s =>
    if s.wordlist then ({ s with ret := some (getCompletions arg 2) }, none)
    else (s, some .assertion)
  | .no_word_completions, s => ({ s with ret := some [] }, none)
  | .record_all_nameplates, s => codeGotNameplate arg { s with nameplate := some arg }
  | .do_words, s =>
    match s.nameplate with
    | none => (s, some .typeError)
    | some np => codeFinishedInput (np ++ 45 :: arg) s
  | .raise_must_choose_nameplate1, s => (s, some .mustChooseNameplateFirst)
  | .raise_must_choose_nameplate2, s => (s, some .mustChooseNameplateFirst)
  | .raise_already_chose_nameplate2, s => (s, some .alreadyChoseNameplate)
  | .raise_already_chose_nameplate3, s => (s, some .alreadyChoseNameplate)
  | .raise_already_chose_words1, s => (s, some .alreadyChoseWords)
  | .raise_already_chose_words2, s => (s, some .alreadyChoseWords)
  | _, s => (s, some .typeError)

def inputStart : St → R := fireInput .start inputOut0

/-! ### Code inputs that reach into Allocator / Input, and the Boss entry points -/

def codeOutAllocateCode (n : Nat) : Code.Output → St → R
  | .do_start_allocate, s => allocAllocate n s
  | _, s => (s, some .typeError)

def codeOutInputCode : Code.Output → St → R
  | .do_start_input, s => inputStart s
  | _, s => (s, some .typeError)

/-- `Code.set_code` (validates again, then `_set_code`) -/
def codeSetCode (isD : Nat → Bool) (c : Str) (s : St) : R :=
  match validateCode isD c with
  | .error e => (s, some e)
  | .ok _ => fireCode .u_set_code (codeOut1 c) s

/-- everything that can happen to the model -/
inductive Ev where
  | allocate (n : Nat)                        -- `Boss.allocate_code(n)`
  | setCode (c : Str)                         -- `Boss.set_code(c)`
  | inputCode                                 -- `Boss.input_code()`
  | connected | lost                          -- RendezvousConnector → Allocator
  | rxAllocated (np : Str) (rand : List Nat)  -- server's `allocated` + the bytes urandom yields
  | gotNameplates (l : List Str)              -- Lister → Input
  | gotWordlist                               -- Nameplate → Input
  | hRefresh | hNpCompl (p : Str) | hChooseNp (np : Str)     -- Helper API
  | hWordCompl (p : Str) | hChooseWords (w : Str) | hWhenWordlist
  deriving DecidableEq, Repr

def step (isD : Nat → Bool) (s0 : St) (e : Ev) : R :=
  let s := { s0 with ret := none }
  match e with
  | .allocate n =>
    if s.latch then (s, some .onlyOneCode)
    else fireCode .allocate_code (codeOutAllocateCode n) { s with latch := true }
  | .setCode c =>
    match validateCode isD c with             -- validate first …
    | .error e => (s, some e)
    | .ok _ =>
      if s.latch then (s, some .onlyOneCode)  -- … then the latch
      else codeSetCode isD c { s with latch := true }
  | .inputCode =>
    if s.latch then (s, some .onlyOneCode)
    else fireCode .input_code codeOutInputCode { s with latch := true }
  | .connected => allocConnected s
  | .lost => allocLost s
  | .rxAllocated np rand => allocRxAllocated np rand s
  | .gotNameplates l => fireInput .got_nameplates (inputOutGotNameplates l) s
  | .gotWordlist => fireInput .got_wordlist inputOutGotWordlist s
  | .hRefresh => fireInput .refresh_nameplates inputOut0 s
  | .hNpCompl p => fireInput .get_nameplate_completions (inputOut1 p) s
  | .hChooseNp np =>
    match validateNameplate isD np with
    | .error e => (s, some e)
    | .ok _ => fireInput .u_choose_nameplate (inputOut1 np) s
  | .hWordCompl p => fireInput .get_word_completions (inputOut1 p) s
  | .hChooseWords w => fireInput .choose_words (inputOut1 w) s
  | .hWhenWordlist =>
    -- `when_wordlist_is_available`: fired at once if the wordlist is known, else queued
    if s.wordlist then ({ s with ret := some [[1]] }, none)
    else ({ s with waiters := s.waiters + 1, ret := some [[0]] }, none)

/-- a whole history; exceptions go back to the caller, the objects live on -/
def run (isD : Nat → Bool) : St → List Ev → St
  | s, [] => s
  | s, e :: es => run isD (step isD s e).1 es

/-! ## driver (line protocol)

Strings travel as hex of their UTF-8 (`-` = empty); lists of strings as `,`-joined hex (`.` = the
empty list); byte lists as hex.
```
np <str>                 -> ok | KeyFormatError                 validate_nameplate
vc <str>                 -> ok | KeyFormatError                 validate_code
cw <n> <bytes>           -> <str>                               choose_words(n) under urandom = bytes
word <i> <byte>          -> <str>                               the word for byte at word index i
gc <numwords> <str>      -> <strs>                              get_completions, sorted
gcs <n>:<str>,<n>:<str>… -> <strs>;<strs>;…                     one wordlist object asked these queries in turn
new                      -> ok                                  a fresh client (Boss, Input, Helper, CodeInputter) in the same process
nd <codepoint>           -> 0 | 1                               \d
ndranges                 -> lo-hi,lo-hi,…
alloc <n> | set <str> | input | connected | lost | rxalloc <str> <bytes> | gotnp <strs> | gotwl
h refresh | h npc <str> | h choosenp <str> | h wc <str> | h choosewords <str> | h wwa
                         -> <result> | <cmds emitted by this call> | latch code input alloc
xfer <send|receive> <none | other | s <str>>   (fresh wormhole, connected, then xfer_util's allocate_code()/set_code(code))
                         -> <result> | <cmds> | latch code input alloc
rl tab <str> | rl finish <str>      (CodeInputter: TAB = completer(text, 0…), Return = finish(text))
                         -> <matches in order | ok | Error> | <cmds> | committed=<str|none> used=<bool> | latch code input alloc
```
-/

def cpsOfString (s : String) : Str := s.toList.map Char.toNat
def stringOfCps (s : Str) : String := String.ofList (s.map Char.ofNat)

def readStr? (h : String) : Option Str := (strOfHex? h).map cpsOfString
def showStr (s : Str) : String := hexOfStr (stringOfCps s)

def readStrs? (t : String) : Option (List Str) :=
  if t == "." then some [] else (t.splitOn ",").mapM readStr?

def strLt : Str → Str → Bool
  | [], [] => false
  | [], _ :: _ => true
  | _ :: _, [] => false
  | a :: as, b :: bs => if a < b then true else if b < a then false else strLt as bs

def insertSorted (x : Str) : List Str → List Str
  | [] => [x]
  | y :: ys => if strLt y x then y :: insertSorted x ys else x :: y :: ys

def sortStrs (l : List Str) : List Str := l.foldr insertSorted []

def showStrs (l : List Str) : String :=
  if l.isEmpty then "." else ",".intercalate ((sortStrs l).map showStr)

def showCmd : Cmd → String
  | .nSetNameplate np => s!"N.set_nameplate:{showStr np}"
  | .bGotCode c => s!"B.got_code:{showStr c}"
  | .kGotCode c => s!"K.got_code:{showStr c}"
  | .lRefresh => "L.refresh"
  | .rcTxAllocate => "RC.tx_allocate"
  | .waitersFired k => s!"waiters:{k}"

def showStep (before : Nat) (r : R) (asBool : Bool) : String :=
  let (s, e) := r
  let res := match e with
    | some x => x.name
    | none => match s.ret with
      | none => "ok"
      | some l => if asBool then (if l == [[1]] then "fired" else "pending") else showStrs l
  let cmds := (s.out.drop before).map showCmd
  s!"{res} | {" ".intercalate cmds} | {s.latch} {Code.State.name s.code} {Input.State.name s.inp} {Allocator.State.name s.alloc}"

/-- `<numwords>:<str>` -/
def readQuery? (t : String) : Option (Nat × Str) :=
  match t.splitOn ":" with
  | [n, h] => do pure (← n.toNat?, ← readStr? h)
  | _ => none

def readQueries? (t : String) : Option (List (Nat × Str)) := (t.splitOn ",").mapM readQuery?

def readEv? : List String → Option Ev
  | ["alloc", n] => n.toNat?.map .allocate
  | ["set", c] => (readStr? c).map .setCode
  | ["input"] => some .inputCode
  | ["connected"] => some .connected
  | ["lost"] => some .lost
  | ["rxalloc", np, b] => do pure (.rxAllocated (← readStr? np) (← fromHex? b))
  | ["gotnp", l] => (readStrs? l).map .gotNameplates
  | ["gotwl"] => some .gotWordlist
  | ["h", "refresh"] => some .hRefresh
  | ["h", "npc", p] => (readStr? p).map .hNpCompl
  | ["h", "choosenp", p] => (readStr? p).map .hChooseNp
  | ["h", "wc", p] => (readStr? p).map .hWordCompl
  | ["h", "choosewords", p] => (readStr? p).map .hChooseWords
  | ["h", "wwa"] => some .hWhenWordlist
  | _ => none

def showRanges (l : List (Nat × Nat)) : String :=
  ",".intercalate (l.map fun (a, b) => s!"{a}-{b}")

def showExc : Except Err Unit → String
  | .ok _ => "ok"
  | .error e => e.name

/-! ## `_rlcompleter.CodeInputter` — the readline front-end of interactive entry

`_commit_and_build_completions(text)` (what TAB runs, through `completer(text, 0)`) and `finish(text)`
(what Return runs), on top of the Input helper above.  `blockingCallFromThread` is a plain call here;
the one call that really blocks, `when_wordlist_is_available()` right after the nameplate was
committed, is resolved by the server's answer to the claim (`got_wordlist`) arriving meanwhile.
-/

structure Rl where
  s : St
  committed : Option Str       -- `_committed_nameplate`
  used : Bool                  -- `used_completion`
  deriving DecidableEq, Repr

def rlInit : Rl := { s := init, committed := none, used := false }

/-- `"-" in text` and `text.split("-", 1)` -/
def parseText (text : Str) : Option (Str × Str) :=
  if text.contains 45 then some (text.takeWhile (· != 45), (text.dropWhile (· != 45)).drop 1) else none

/-- `if self._committed_nameplate:` — `None` and `""` are both false -/
def committedNp (r : Rl) : Option Str :=
  match r.committed with
  | some (c :: cs) => some (c :: cs)
  | _ => none

/-- the "they deleted past the commitment point" test of `_commit_and_build_completions`:
    `not got_nameplate or nameplate != self._committed_nameplate` -/
def rolledBackTab (r : Rl) (parsed : Option (Str × Str)) : Bool :=
  match committedNp r with
  | none => false
  | some c =>
    match parsed with
    | none => true
    | some (np, _) => np != c

/-- the same test in `finish` (a hyphen is known to be present): `nameplate != self._committed_nameplate` -/
def rolledBackFinish (r : Rl) (np : Str) : Bool :=
  match committedNp r with
  | none => false
  | some c => np != c

/-- `self.bcft(ih.when_wordlist_is_available)`: returns at once if the wordlist is known, else blocks
    until the claim response brings it -/
def rlWaitWordlist (isD : Nat → Bool) (s : St) : R :=
  match step isD s .hWhenWordlist with
  | (s1, some e) => (s1, some e)
  | (s1, none) => if s1.ret == some [[1]] then (s1, none) else step isD s1 .gotWordlist

/-- "time to commit to this nameplate, if they haven't already": `choose_nameplate`, remember it,
    wait for the wordlist -/
def rlCommitTab (isD : Nat → Bool) (r : Rl) (np : Str) : Rl × Option Err :=
  if (committedNp r).isSome then (r, none) else
  match step isD r.s (.hChooseNp np) with
  | (s1, some e) => ({ r with s := s1 }, some e)
  | (s1, none) =>
    match rlWaitWordlist isD s1 with
    | (s2, e) => ({ r with s := s2, committed := some np }, e)

/-- completing on nameplates: `refresh_nameplates()`, then `sorted(get_nameplate_completions(text))` -/
def rlNameplates (isD : Nat → Bool) (r : Rl) (text : Str) : Rl × Except Err (List Str) :=
  match step isD r.s .hRefresh with
  | (s1, some e) => ({ r with s := s1 }, .error e)
  | (s1, none) =>
    match step isD s1 (.hNpCompl text) with
    | (s2, some e) => ({ r with s := s2 }, .error e)
    | (s2, none) =>
      match s2.ret with
      | none => ({ r with s := s2 }, .error .typeError)
      | some l => ({ r with s := s2 }, .ok (sortStrs l))

/-- completing on words: `sorted(nameplate + "-" + c for c in get_word_completions(words))` -/
def rlWords (isD : Nat → Bool) (r : Rl) (np words : Str) : Rl × Except Err (List Str) :=
  match step isD r.s (.hWordCompl words) with
  | (s3, some e) => ({ r with s := s3 }, .error e)
  | (s3, none) =>
    match s3.ret with
    | none => ({ r with s := s3 }, .error .typeError)
    | some l => ({ r with s := s3 }, .ok (sortStrs (l.map fun w => np ++ 45 :: w)))

/-- `_commit_and_build_completions(text)`; the value is `sorted(completions)` -/
def rlBuild (isD : Nat → Bool) (r : Rl) (text : Str) : Rl × Except Err (List Str) :=
  if rolledBackTab r (parseText text) then (r, .error .alreadyInputNameplate) else
  match parseText text with
  | none => rlNameplates isD r text
  | some (np, words) =>
    match rlCommitTab isD r np with
    | (r1, some e) => (r1, .error e)
    | (r1, none) => rlWords isD r1 np words

/-- TAB: `completer(text, 0)`, then `completer(text, 1…)` until `None` — the whole match list -/
def rlTab (isD : Nat → Bool) (r : Rl) (text : Str) : Rl × Except Err (List Str) :=
  rlBuild isD { r with used := true } text

/-- `finish`: `choose_nameplate` only if no nameplate was committed by a TAB -/
def rlCommitFinish (isD : Nat → Bool) (r : Rl) (np : Str) : Rl × Option Err :=
  if (committedNp r).isSome then (r, none) else
  match step isD r.s (.hChooseNp np) with
  | (s1, e) => ({ r with s := s1 }, e)

/-- Return: `finish(text)` -/
def rlFinish (isD : Nat → Bool) (r : Rl) (text : Str) : Rl × Option Err :=
  match parseText text with
  | none => (r, some .keyFormat)                 -- "incomplete wormhole code"
  | some (np, words) =>
    if rolledBackFinish r np then (r, some .alreadyInputNameplate) else
    match rlCommitFinish isD r np with
    | (r1, some e) => (r1, some e)
    | (r1, none) =>
      match step isD r1.s (.hChooseWords words) with
      | (s2, e) => ({ r1 with s := s2 }, e)

/-- an interactive session: the user's TABs and the final Return, interleaved with anything else that
    can happen to the objects underneath -/
inductive RlEv where
  | tab (text : Str)
  | finish (text : Str)
  | env (e : Ev)
  deriving DecidableEq, Repr

def rlStep (isD : Nat → Bool) (r : Rl) : RlEv → Rl
  | .tab t => (rlTab isD r t).1
  | .finish t => (rlFinish isD r t).1
  | .env e => { r with s := (step isD r.s e).1 }

def rlRun (isD : Nat → Bool) : Rl → List RlEv → Rl
  | r, [] => r
  | r, e :: es => rlRun isD (rlStep isD r e) es

/-! ## `xfer_util.send` / `xfer_util.receive` — the convenience entry points (behind `wormhole ssh`)

`wh = wormhole.create(…)` (a fresh client; `create` ends with `start()`, so with a live connection the
Allocator has heard `connected`), then

    if code is None:  wh.allocate_code();  code = yield wh.get_code()
    else:             wh.set_code(code)

The `code` argument is whatever the caller hands in: `None`, a `str`, or something else.  That the
test is `code is None` (and not truthiness: `""` and `0` are falsy) is read from the source by the
translator (`Flags.xfer_allocates_only_for_code_is_none`).
-/

inductive CodeArg where
  | none                 -- `None`
  | str (c : Str)        -- a `str`, possibly empty
  | other                -- anything else (`0`, `b""`, `False`, …): `' ' in code` raises TypeError
  deriving DecidableEq, Repr

/-- the state `wormhole.create` returns with the connection up -/
def xferCreated (isD : Nat → Bool) : St := (step isD init .connected).1

/-- the code-start call of `xfer_util.send/receive` on a wormhole in state `s` -/
def xferStartOn (isD : Nat → Bool) (s : St) (code : CodeArg) : R :=
  if !Flags.xfer_allocates_only_for_code_is_none then ({ s with ret := none }, some .unknownGuard) else
  match code with
  | .none => step isD s (.allocate 2)          -- `allocate_code()`: code_length defaults to 2
  | .str c => step isD s (.setCode c)
  | .other => ({ s with ret := none }, some .typeError)

def xferStart (isD : Nat → Bool) (code : CodeArg) : R := xferStartOn isD (xferCreated isD) code

def showRl (before : Nat) (res : String) (r : Rl) : String :=
  let cmds := (r.s.out.drop before).map showCmd
  let com := match r.committed with | none => "none" | some c => showStr c
  s!"{res} | {" ".intercalate cmds} | committed={com} used={r.used} | {r.s.latch} {Code.State.name r.s.code} {Input.State.name r.s.inp} {Allocator.State.name r.s.alloc}"

def showListInOrder (l : List Str) : String :=
  if l.isEmpty then "." else ",".intercalate (l.map showStr)

def stepLine (r : Rl) (line : String) : Rl × String :=
  let s := r.s
  match tokens line with
  | ["reset"] => (rlInit, "ok")
  | ["new"] => (rlInit, "ok")
  | ["gcs", t] =>
    match readQueries? t with
    | some qs => (r, ";".intercalate ((gcSession qs).map showStrs))
    | none => (r, "bad-op")
  | "xfer" :: _kind :: rest =>
    let arg : Option CodeArg :=
      match rest with
      | ["none"] => some .none
      | ["other"] => some .other
      | ["s", h] => (readStr? h).map .str
      | _ => none
    match arg with
    | some c =>
      let q := xferStart isNd c
      ({ rlInit with s := q.1 }, showStep 0 q false)
    | none => (r, "bad-op")
  | ["rl", "tab", h] =>
    match readStr? h with
    | some t =>
      match rlTab isNd r t with
      | (r', .ok l) => (r', showRl s.out.length (showListInOrder l) r')
      | (r', .error e) => (r', showRl s.out.length e.name r')
    | none => (r, "bad-op")
  | ["rl", "finish", h] =>
    match readStr? h with
    | some t =>
      match rlFinish isNd r t with
      | (r', none) => (r', showRl s.out.length "ok" r')
      | (r', some e) => (r', showRl s.out.length e.name r')
    | none => (r, "bad-op")
  | ["np", h] =>
    match readStr? h with
    | some x => (r, showExc (validateNameplate isNd x))
    | none => (r, "bad-op")
  | ["vc", h] =>
    match readStr? h with
    | some x => (r, showExc (validateCode isNd x))
    | none => (r, "bad-op")
  | ["cw", n, b] =>
    match n.toNat?, fromHex? b with
    | some n, some rs =>
      (r, match chooseWords n rs with | some w => showStr w | none => "KeyError")
    | _, _ => (r, "bad-op")
  | ["word", i, b] =>
    match i.toNat?, b.toNat? with
    | some i, some b => (r, match wordAt i b with | some w => showStr w | none => "KeyError")
    | _, _ => (r, "bad-op")
  | ["gc", n, h] =>
    match n.toNat?, readStr? h with
    | some n, some p => (r, showStrs (getCompletions p n))
    | _, _ => (r, "bad-op")
  | ["nd", c] =>
    match c.toNat? with
    | some c => (r, if isNd c then "1" else "0")
    | none => (r, "bad-op")
  | ["ndranges"] => (r, showRanges Consts.unicode_decimal_ranges)
  | ts =>
    match readEv? ts with
    | some ev =>
      let q := step isNd s ev
      ({ r with s := q.1 }, showStep s.out.length q (ev == .hWhenWordlist))
    | none => (r, "bad-op")

def driver (lines : List String) : List String := runLines stepLine rlInit lines

end WV.C19
