import WV.Model.Basic
import WV.Gen.T_Key
import WV.Gen.T_SortedKey
import WV.Gen.T_Order
import WV.Gen.T_Receive
import WV.Gen.T_Send
import WV.Gen.T_Boss
import WV.Gen.Skel

/-!
C01 — the session key is bound to the wormhole code.

Model of the key-agreement core of one mailbox client, at the boundary

  inputs : `Code.do_set_code/do_finish_input/do_finish_allocate` (→ `B.got_code`, `K.got_code`),
           `Order.got_message(side, phase, body)` (what `Mailbox.N_release_and_accept` hands over),
           `Boss.send`, `Boss.close`, `Boss.closed` (from Terminator), `wormhole.derive_key`
  outputs: `W.got_code/got_key/got_verifier/got_versions/received/closed`,
           `M.add_message(phase, body)`, `T.close(mood)`

`src/wormhole/_key.py` (Key, _SortedKey, derive_key, derive_phase_key, encrypt/decrypt_data),
`_order.py`, `_receive.py`, `_send.py`, `_boss.py` (the rows and outputs reachable from that
boundary), `wormhole.py` (`derive_key`, `got_key`), `util.py` (`to_bytes`).  All six Automat tables
are the *generated* ones; this file gives the output bodies, statement by statement.

Cryptography and Unicode are a structure of operations (`Crypto`); their ideal properties are the
hypothesis structure `Crypto.Ideal`, never axioms.
-/
namespace WV.C01
open WV WV.Gen

/-! ## Python strings

A Python `str` is a sequence of code points `0 … 0x10FFFF`, *surrogates included* (`'\udce9'` is a legal
one-character `str`; PEP 383 delivers undecodable argv / terminal bytes that way).  Lean's `String` cannot
hold a surrogate, so the strings that come from the application — code, appid, `derive_key` purpose — are
lists of code points.  (Sides and phases are ASCII and stay `String`.) -/

/-- a Python `str` -/
abbrev PyStr := List Nat

/-- the `str` with the characters of a Lean string -/
def py (s : String) : PyStr := s.toList.map Char.toNat

/-- one code point under `str.encode("utf-8")` (errors="strict"): `none` = `UnicodeEncodeError`
    ("surrogates not allowed"); code points are `< 0x110000` in any `str` -/
def utf8cp (c : Nat) : Option Bytes :=
  if c < 0x80 then some [c]
  else if c < 0x800 then some [0xC0 + c / 64, 0x80 + c % 64]
  else if 0xD800 ≤ c ∧ c ≤ 0xDFFF then none
  else if c < 0x10000 then some [0xE0 + c / 4096, 0x80 + c / 64 % 64, 0x80 + c % 64]
  else if c < 0x110000 then some [0xF0 + c / 262144, 0x80 + c / 4096 % 64, 0x80 + c / 64 % 64, 0x80 + c % 64]
  else none

/-- `u.encode("utf-8")`: `none` = `UnicodeEncodeError` (the whole call raises at the first surrogate) -/
def utf8enc : PyStr → Option Bytes
  | [] => some []
  | c :: cs =>
    match utf8cp c, utf8enc cs with
    | some a, some b => some (a ++ b)
    | _, _ => none

/-- can strict UTF-8 encode this code point / this string?  Everything but the surrogates
    `U+D800 … U+DFFF`.  (`Proofs.C01`: `utf8enc_isSome`, `utf8enc_inj`.) -/
def cpEncodable (c : Nat) : Bool := c < 0xD800 || (0xDFFF < c && c < 0x110000)
def encodable (s : PyStr) : Bool := s.all cpEncodable

/-! ## external operations -/

/-- SPAKE2 / HKDF-SHA256 / SHA256 / SecretBox / Unicode normalisation, as the code uses them. -/
structure Crypto where
  /-- `unicodedata.normalize("NFC", ·)` -/
  nfc : PyStr → PyStr
  /-- `SPAKE2_Symmetric(pw, idSymmetric=id).start()` with the random scalar `rnd`: the element sent -/
  pakeStart : (pw id rnd : Bytes) → Bytes
  /-- `.finish(msg2)` of that instance; `none` = the library raises (reflected / malformed element) -/
  pakeFinish : (pw id rnd msg2 : Bytes) → Option Bytes
  /-- `HKDF(SHA256, length=n, salt=None, info).derive(key)` for `n ≤ 255·32` -/
  hkdf : (key info : Bytes) → (n : Nat) → Bytes
  sha256 : Bytes → Bytes
  /-- `SecretBox(key).encrypt(plaintext, nonce)` -/
  box : (key nonce pt : Bytes) → Bytes
  /-- `SecretBox(key).decrypt(ct)`; `none` = `CryptoError` -/
  unbox : (key ct : Bytes) → Option Bytes

/-- `HKDF` refuses more than `255 * 32` octets (`ValueError`) -/
def hkdfMax : Nat := 8160

/-- The ideal properties the theorems rely on. -/
structure Crypto.Ideal (C : Crypto) : Prop where
  nfc_idem : ∀ s, C.nfc (C.nfc s) = C.nfc s
  /-- normalisation neither removes nor creates what UTF-8 cannot encode (surrogates have no
      decomposition and compose with nothing: `normalize` leaves them where they are) -/
  nfc_encodable : ∀ s, encodable (C.nfc s) = encodable s
  /-- two honest parties with distinct scalars always finish, and with the same key exactly when
      password and identity agree; otherwise the keys are different -/
  pake : ∀ pw id r pw' id' r', r ≠ r' →
    ∃ k k', C.pakeFinish pw id r (C.pakeStart pw' id' r') = some k ∧
            C.pakeFinish pw' id' r' (C.pakeStart pw id r) = some k' ∧
            (k = k' ↔ pw = pw' ∧ id = id')
  /-- collision-free in (key, info) at every non-zero length -/
  hkdf_inj : ∀ k i k' i' n, 1 ≤ n → C.hkdf k i n = C.hkdf k' i' n → k = k' ∧ i = i'
  sha_inj : ∀ a b, C.sha256 a = C.sha256 b → a = b
  unbox_box : ∀ k n p, C.unbox k (C.box k n p) = some p
  unbox_wrong_key : ∀ k k' n p, k ≠ k' → C.unbox k' (C.box k n p) = none

/-- `util.to_bytes`: `unicodedata.normalize("NFC", u).encode("utf-8")` — NFC-normalise, then *strict*
    UTF-8; `none` = `UnicodeEncodeError` -/
def toBytes (C : Crypto) (u : PyStr) : Option Bytes := utf8enc (C.nfc u)

/-- `b"wormhole:verifier"` -/
def verifierPurpose : Bytes := utf8 "wormhole:verifier"
/-- `b"wormhole:phase:"` -/
def phasePrefix : Bytes := utf8 "wormhole:phase:"

/-- `derive_phase_key(key, side, phase)` (`side`/`phase` are ASCII; `.encode("ascii")`) -/
def phaseKey (C : Crypto) (key : Bytes) (side phase : String) : Bytes :=
  C.hkdf key (phasePrefix ++ C.sha256 (utf8 side) ++ C.sha256 (utf8 phase)) 32

/-- `dict_to_bytes({"pake_v1": hex(msg1)})`, abstracted to a tag byte in front of the element -/
def pakeBody (m : Bytes) : Bytes := 1 :: m

/-- the `try:` block of `_SortedKey.got_pake`: `bytes_to_dict(body)` and
    `hexstr_to_bytes(payload["pake_v1"])`; `none` = any of the caught exceptions
    `(AssertionError, KeyError, TypeError, ValueError, RecursionError)` (not JSON or absurdly
    nested, not an object, no `pake_v1`, not a hex string) → `got_pake_bad` -/
def parsePake : Bytes → Option Bytes
  | 1 :: m => some m
  | _ => none

/-! ## state -/

inductive Exn where
  | noTransition (machine : String)
  | assertion
  | typeError
  | noKeyError
  | valueError
  | unicodeEncodeError
  | attributeError
  deriving DecidableEq, Repr

def Exn.name : Exn → String
  | .noTransition _ => "NoTransition" | .assertion => "AssertionError"
  | .typeError => "TypeError" | .noKeyError => "NoKeyError" | .valueError => "ValueError"
  | .unicodeEncodeError => "UnicodeEncodeError" | .attributeError => "AttributeError"

/-- `Boss._result` -/
inductive Verdict where
  | empty | happy | lonely | wrongPassword
  deriving DecidableEq, Repr

def Verdict.name : Verdict → String
  | .empty => "empty" | .happy => "happy" | .lonely => "LonelyError" | .wrongPassword => "WrongPasswordError"

/-- calls that leave the modelled core -/
inductive Ev where
  | wCode (code : PyStr)
  | wKey (k : Bytes)
  | wVerifier (v : Bytes)
  | wVersions (v : Bytes)
  | wReceived (p : Bytes)
  | wClosed (r : Verdict)
  | mAdd (phase : String) (body : Bytes)
  | tClose (mood : String)
  deriving DecidableEq, Repr

/-- is this one of the three "something was delivered from the peer" events? -/
def Ev.delivers : Ev → Bool
  | .wVerifier _ | .wVersions _ | .wReceived _ => true
  | _ => false

structure Cfg where
  side : String
  appid : PyStr
  /-- `dict_to_bytes(self._versions)` -/
  versions : Bytes
  /-- the SPAKE2 scalar this client will draw -/
  rnd : Bytes

structure Msg where
  side : String
  phase : String
  body : Bytes
  deriving DecidableEq, Repr

structure St where
  k : Key.State
  stash : Option Bytes                 -- `Key._pake`
  sk : SortedKey.State
  sp : Option (Bytes × Bytes)          -- `_SortedKey._sp`: (password, idSymmetric)
  o : Order.State
  oq : List Msg                        -- `Order._queue`
  r : Receive.State
  rkey : Option Bytes                  -- `Receive._key`
  s : Send.State
  skey : Option Bytes                  -- `Send._key`
  sq : List (String × Bytes)           -- `Send._queue`
  b : Boss.State
  result : Verdict
  nextTx : Nat
  nextRx : Nat
  rxPhases : List (Nat × Bytes)
  wkey : Option Bytes                  -- `_DeferredWormhole._key` / `_DelegatedWormhole._key`
  nonce : Nat                          -- how many SecretBox nonces were drawn
  out : List Ev
  deriving Repr

def init : St :=
  { k := Key.init, stash := none, sk := SortedKey.init, sp := none, o := Order.init, oq := [],
    r := Receive.init, rkey := none, s := Send.init, skey := none, sq := [], b := Boss.init,
    result := .empty, nextTx := 0, nextRx := 0, rxPhases := [], wkey := none, nonce := 0, out := [] }

/-- a step: the new state (kept when an exception unwinds) and the exception, if any -/
abbrev Res := St × Option Exn

def ok (s : St) : Res := (s, none)
def raise (e : Exn) (s : St) : Res := (s, some e)
def emit (e : Ev) (s : St) : Res := ({ s with out := s.out ++ [e] }, none)

/-- run `f` on each element in order; stop at the first exception -/
def seqM {α : Type} (f : α → St → Res) : List α → St → Res
  | [], s => (s, none)
  | a :: as, s =>
    match f a s with
    | (s', none) => seqM f as s'
    | (s', some e) => (s', some e)

def andThen (r : Res) (f : St → Res) : Res :=
  match r with
  | (s, none) => f s
  | (s, some e) => (s, some e)

/-! ## Send (`_send.py`) -/

def natNonce (n : Nat) : Bytes := [n]

/-- `_encrypt_and_send(phase, plaintext)` -/
def encryptAndSend (C : Crypto) (cfg : Cfg) (phase : String) (pt : Bytes) (s : St) : Res :=
  match s.skey with
  | none => raise .assertion s
  | some key =>
    let dk := phaseKey C key cfg.side phase
    let body := C.box dk (natNonce s.nonce) pt
    emit (.mAdd phase body) { s with nonce := s.nonce + 1 }

inductive SIn where
  | gotVerifiedKey (key : Bytes)
  | send (phase : String) (pt : Bytes)

def SIn.tag : SIn → Send.Input
  | .gotVerifiedKey _ => .got_verified_key
  | .send _ _ => .send

def sendOut (C : Crypto) (cfg : Cfg) (i : SIn) (o : Send.Output) (s : St) : Res :=
  match o, i with
  | .queue, .send phase pt => ok { s with sq := s.sq ++ [(phase, pt)] }
  | .record_key, .gotVerifiedKey key => ok { s with skey := some key }
  | .drain, .gotVerifiedKey _ =>
    andThen (seqM (fun (x : String × Bytes) => encryptAndSend C cfg x.1 x.2) s.sq s)
      (fun s' => ok { s' with sq := [] })
  | .deliver, .send phase pt => encryptAndSend C cfg phase pt s
  | _, _ => raise .typeError s

def sendIn (C : Crypto) (cfg : Cfg) (i : SIn) (s : St) : Res :=
  match Send.table s.s i.tag with
  | none => raise (.noTransition "Send") s
  | some (st', outs) => seqM (sendOut C cfg i) outs { s with s := st' }

/-! ## Boss (`_boss.py`) -/

inductive BIn where
  | gotCode (code : PyStr)
  | gotKey (key : Bytes)
  | happy
  | scared
  | gotVerifier (v : Bytes)
  | gotVersion (pt : Bytes)
  | gotPhase (n : Nat) (pt : Bytes)
  | gotDilate (n : Nat) (pt : Bytes)
  | send (pt : Bytes)
  | close
  | closed

def BIn.tag : BIn → Boss.Input
  | .gotCode _ => .got_code | .gotKey _ => .got_key | .happy => .happy | .scared => .scared
  | .gotVerifier _ => .got_verifier | .gotVersion _ => .u_got_version | .gotPhase _ _ => .u_got_phase
  | .gotDilate _ _ => .u_got_dilate | .send _ => .send | .close => .close | .closed => .closed

def lookupPhase (n : Nat) : List (Nat × Bytes) → Option Bytes
  | [] => none
  | (m, p) :: rest => if m = n then some p else lookupPhase n rest

/-- the `while self._next_rx_phase in self._rx_phases:` loop of `W_received`; every turn removes
    one entry, so `rxPhases.length` turns suffice -/
def deliverInOrder : Nat → St → Res
  | 0, s => ok s
  | fuel + 1, s =>
    match lookupPhase s.nextRx s.rxPhases with
    | none => ok s
    | some p =>
      andThen (emit (.wReceived p)
        { s with rxPhases := s.rxPhases.filter (fun e => e.1 != s.nextRx) })
        (fun s' => deliverInOrder fuel { s' with nextRx := s'.nextRx + 1 })

def natToDec (n : Nat) : String := toString n

def bossOut (C : Crypto) (cfg : Cfg) (i : BIn) (o : Boss.Output) (s : St) : Res :=
  match o, i with
  | .do_got_code, .gotCode code => emit (.wCode code) s
  | .W_got_key, .gotKey key => andThen (emit (.wKey key) s) (fun s' => ok { s' with wkey := some key })
  | .D_got_key, .gotKey _ => ok s                      -- Dilator: outside this model
  | .send_status_peer_key, .gotKey _ => ok s
  | .W_got_verifier, .gotVerifier v => emit (.wVerifier v) s
  | .process_version, .gotVersion pt => emit (.wVersions pt) s
  | .send_status_confirmed_key, .gotVersion _ => ok s
  | .W_received, .gotPhase n pt =>
    let s1 := { s with rxPhases := (n, pt) :: s.rxPhases.filter (fun e => e.1 != n) }
    deliverInOrder (s1.rxPhases.length) s1
  | .D_received_dilate, .gotDilate _ _ => ok s         -- Dilator: outside this model
  | .S_send, .send pt =>
    let phase := s.nextTx
    sendIn C cfg (.send (natToDec phase) pt) { s with nextTx := s.nextTx + 1 }
  | .close_scared, .scared => emit (.tClose "scary") { s with result := .wrongPassword }
  | .close_lonely, .close => emit (.tClose "lonely") { s with result := .lonely }
  | .close_happy, .close => emit (.tClose "happy") { s with result := .happy }
  | .W_closed, .closed => emit (.wClosed s.result) s
  | .send_status_closed, .closed => ok s
  | _, _ => raise .typeError s

def bossIn (C : Crypto) (cfg : Cfg) (i : BIn) (s : St) : Res :=
  match Boss.table s.b i.tag with
  | none => raise (.noTransition "Boss") s
  | some (st', outs) => seqM (bossOut C cfg i) outs { s with b := st' }

inductive PhaseKind where
  | version | dilate (n : Nat) | num (n : Nat) | unknown
  deriving DecidableEq, Repr

def allDigits (cs : List Char) : Bool := !cs.isEmpty && cs.all (fun c => '0' ≤ c && c ≤ '9')
def decVal (cs : List Char) : Nat := cs.foldl (fun a c => a * 10 + (c.toNat - 48)) 0

/-- the `if/elif` chain of `Boss.got_message` (ASCII digits; the honest peer's phases are `"%d"`) -/
def classifyPhase (phase : String) : PhaseKind :=
  if phase = "version" then .version
  else
    let cs := phase.toList
    if "dilate-".toList.isPrefixOf cs && allDigits (cs.drop 7) then .dilate (decVal (cs.drop 7))
    else if allDigits cs then .num (decVal cs)
    else .unknown

/-- `Boss.got_message(phase, plaintext)` -/
def bossGotMessage (C : Crypto) (cfg : Cfg) (phase : String) (pt : Bytes) (s : St) : Res :=
  match classifyPhase phase with
  | .version => bossIn C cfg (.gotVersion pt) s
  | .dilate n => bossIn C cfg (.gotDilate n pt) s
  | .num n => bossIn C cfg (.gotPhase n pt) s
  | .unknown => ok s                                    -- `log.err(_UnknownPhaseError)`, ignored

/-! ## Receive (`_receive.py`) -/

inductive RIn where
  | gotKey (key : Bytes)
  | good (phase : String) (pt : Bytes)
  | bad

def RIn.tag : RIn → Receive.Input
  | .gotKey _ => .got_key | .good _ _ => .got_message_good | .bad => .got_message_bad

def receiveOut (C : Crypto) (cfg : Cfg) (i : RIn) (o : Receive.Output) (s : St) : Res :=
  match o, i with
  | .record_key, .gotKey key => ok { s with rkey := some key }
  | .S_got_verified_key, .good _ _ =>
    match s.rkey with
    | none => raise .assertion s
    | some key => sendIn C cfg (.gotVerifiedKey key) s
  | .W_happy, .good _ _ => bossIn C cfg .happy s
  | .W_got_verifier, .good _ _ =>
    match s.rkey with
    | none => raise .typeError s                        -- `derive_key(None, …)`
    | some key => bossIn C cfg (.gotVerifier (C.hkdf key verifierPurpose 32)) s
  | .W_got_message, .good phase pt => bossGotMessage C cfg phase pt s
  | .W_scared, .bad => bossIn C cfg .scared s
  | _, _ => raise .typeError s

def receiveIn (C : Crypto) (cfg : Cfg) (i : RIn) (s : St) : Res :=
  match Receive.table s.r i.tag with
  | none => raise (.noTransition "Receive") s
  | some (st', outs) => seqM (receiveOut C cfg i) outs { s with r := st' }

/-- `Receive.got_message(side, phase, body)` -/
def receiveGotMessage (C : Crypto) (cfg : Cfg) (m : Msg) (s : St) : Res :=
  match s.rkey with
  | none => receiveIn C cfg .bad s                      -- `if self._key is None: self.got_message_bad(); return`
  | some key =>
    let dk := phaseKey C key m.side m.phase
    match C.unbox dk m.body with
    | none => receiveIn C cfg .bad s                    -- `except CryptoError`
    | some pt => receiveIn C cfg (.good m.phase pt) s

/-! ## _SortedKey (`_key.py`) -/

inductive SKIn where
  | gotCode (code : PyStr)
  | pakeGood (msg2 : Bytes)
  | pakeBad

def SKIn.tag : SKIn → SortedKey.Input
  | .gotCode _ => .got_code | .pakeGood _ => .got_pake_good | .pakeBad => .got_pake_bad

def sortedKeyOut (C : Crypto) (cfg : Cfg) (i : SKIn) (o : SortedKey.Output) (s : St) : Res :=
  match o, i with
  | .build_pake, .gotCode code =>
    -- `SPAKE2_Symmetric(to_bytes(code), idSymmetric=to_bytes(self._appid))`: either `to_bytes` may
    -- raise; then `self._sp` is never assigned and nothing is sent
    match toBytes C code, toBytes C cfg.appid with
    | some pw, some idS =>
      let msg1 := C.pakeStart pw idS cfg.rnd
      emit (.mAdd "pake" (pakeBody msg1)) { s with sp := some (pw, idS) }
    | _, _ => raise .unicodeEncodeError s
  | .scared, .pakeBad => bossIn C cfg .scared s
  | .compute_key, .pakeGood msg2 =>
    match s.sp with
    | none => raise .attributeError s                   -- `self._sp.finish`: no `_sp` (`build_pake` raised)
    | some (pw, idS) =>
      match C.pakeFinish pw idS cfg.rnd msg2 with
      | none => bossIn C cfg .scared s                  -- `except (AssertionError, ValueError, SPAKEError, NotOnCurve): self._B.scared(); return`
      | some key =>
        andThen (bossIn C cfg (.gotKey key) s) fun s1 =>
        let dk := phaseKey C key cfg.side "version"
        let encd := C.box dk (natNonce s1.nonce) cfg.versions
        andThen (emit (.mAdd "version" encd) { s1 with nonce := s1.nonce + 1 }) fun s2 =>
        receiveIn C cfg (.gotKey key) s2
  | _, _ => raise .typeError s

def sortedKeyIn (C : Crypto) (cfg : Cfg) (i : SKIn) (s : St) : Res :=
  match SortedKey.table s.sk i.tag with
  | none => raise (.noTransition "_SortedKey") s
  | some (st', outs) => seqM (sortedKeyOut C cfg i) outs { s with sk := st' }

/-- `_SortedKey.got_pake(body)` -/
def sortedKeyGotPake (C : Crypto) (cfg : Cfg) (body : Bytes) (s : St) : Res :=
  match parsePake body with
  | some m => sortedKeyIn C cfg (.pakeGood m) s
  | none => sortedKeyIn C cfg .pakeBad s

/-! ## Key (`_key.py`) -/

inductive KIn where
  | gotCode (code : PyStr)
  | gotPake (body : Bytes)

def KIn.tag : KIn → Key.Input
  | .gotCode _ => .got_code | .gotPake _ => .got_pake

def keyOut (C : Crypto) (cfg : Cfg) (i : KIn) (o : Key.Output) (s : St) : Res :=
  match o, i with
  | .stash_pake, .gotPake body => ok { s with stash := some body }
  | .deliver_code, .gotCode code => sortedKeyIn C cfg (.gotCode code) s
  | .deliver_pake, .gotPake body => sortedKeyGotPake C cfg body s
  | .deliver_code_and_stashed_pake, .gotCode code =>
    andThen (sortedKeyIn C cfg (.gotCode code) s) fun s1 =>
    match s1.stash with
    | none => raise .typeError s1                       -- AttributeError: no `_pake`
    | some body => sortedKeyGotPake C cfg body s1
  | _, _ => raise .typeError s

def keyIn (C : Crypto) (cfg : Cfg) (i : KIn) (s : St) : Res :=
  match Key.table s.k i.tag with
  | none => raise (.noTransition "Key") s
  | some (st', outs) => seqM (keyOut C cfg i) outs { s with k := st' }

/-! ## Order (`_order.py`) -/

def orderOut (C : Crypto) (cfg : Cfg) (m : Msg) (o : Order.Output) (s : St) : Res :=
  match o with
  | .queue => ok { s with oq := s.oq ++ [m] }
  | .notify_key => keyIn C cfg (.gotPake m.body) s
  | .drain =>
    andThen (seqM (receiveGotMessage C cfg) s.oq s) (fun s' => ok { s' with oq := [] })
  | .deliver => receiveGotMessage C cfg m s

/-- `Order.got_message(side, phase, body)` -/
def orderGotMessage (C : Crypto) (cfg : Cfg) (m : Msg) (s : St) : Res :=
  let inp : Order.Input := if m.phase = "pake" then .got_pake else .got_non_pake
  match Order.table s.o inp with
  | none => raise (.noTransition "Order") s
  | some (st', outs) => seqM (orderOut C cfg m) outs { s with o := st' }

/-! ## the boundary -/

/-- `Code.do_set_code / do_finish_input / do_finish_allocate`: `B.got_code(code)` then `K.got_code(code)` -/
def gotCode (C : Crypto) (cfg : Cfg) (code : PyStr) (s : St) : Res :=
  andThen (bossIn C cfg (.gotCode code) s) (keyIn C cfg (.gotCode code))

/-- `wormhole.derive_key(purpose, length)` (`purpose` a `str`, `length` a non-negative `int`):
    `if not self._key: raise NoKeyError()`, then `derive_key(self._key, to_bytes(purpose), length)` —
    the argument `to_bytes(purpose)` is evaluated (and may raise) before HKDF sees the length -/
def deriveKey (C : Crypto) (s : St) (purpose : PyStr) (n : Nat) : Except Exn Bytes :=
  match s.wkey with
  | none => .error .noKeyError
  | some key =>
    match toBytes C purpose with
    | none => .error .unicodeEncodeError
    | some info => if hkdfMax < n then .error .valueError else .ok (C.hkdf key info n)

/-- what the environment can do to a client (the schedule alphabet of the theorems) -/
inductive Env where
  | code (c : PyStr)
  | rx (m : Msg)
  | send (pt : Bytes)
  | close
  | closed

def envStep (C : Crypto) (cfg : Cfg) (e : Env) (s : St) : Res :=
  match e with
  | .code c => gotCode C cfg c s
  | .rx m => orderGotMessage C cfg m s
  | .send pt => bossIn C cfg (.send pt) s
  | .close => bossIn C cfg .close s
  | .closed => bossIn C cfg .closed s

def run (C : Crypto) (cfg : Cfg) (evs : List Env) (s : St) : Res := seqM (envStep C cfg) evs s

/-- the body of the message this client put into its mailbox for `phase` (first one) -/
def sentBody (phase : String) : List Ev → Option Bytes
  | [] => none
  | .mAdd p b :: rest => if p = phase then some b else sentBody phase rest
  | _ :: rest => sentBody phase rest

/-- the declared call shape of the hand-written output bodies above, compared with the generated
    skeletons of the working tree in `Props.C01.skeleton_agrees` -/
def callShape : List (String × List (String × String)) :=
  [ ("Key.stash_pake", []),
    ("Key.deliver_code", [("-", "_SK.got_code")]),
    ("Key.deliver_pake", [("-", "_SK.got_pake")]),
    ("Key.deliver_code_and_stashed_pake", [("-", "_SK.got_code"), ("-", "_SK.got_pake")]),
    ("_SortedKey.got_pake", [("except", "self.got_pake_bad"), ("-", "self.got_pake_good")]),
    ("_SortedKey.build_pake", [("-", "SPAKE2_Symmetric"), ("-", "_sp.start"), ("-", "_M.add_message")]),
    ("_SortedKey.scared", [("-", "_B.scared")]),
    ("_SortedKey.compute_key", [("except", "_B.scared"), ("-", "_B.got_key"), ("-", "derive_phase_key"), ("-", "encrypt_data"),
                                ("-", "_M.add_message"), ("-", "_R.got_key")]),
    ("Order.got_message", [("if", "self.got_pake"), ("else", "self.got_non_pake")]),
    ("Order.queue", []),
    ("Order.notify_key", [("-", "_K.got_pake")]),
    ("Order.drain", [("for", "self._deliver")]),
    ("Order.deliver", [("-", "self._deliver")]),
    ("Order._deliver", [("-", "_R.got_message")]),
    ("Receive.got_message", [("if", "self.got_message_bad"), ("-", "derive_phase_key"), ("try", "decrypt_data"),
                             ("except", "self.got_message_bad"), ("-", "self.got_message_good")]),
    ("Receive.record_key", []),
    ("Receive.S_got_verified_key", [("-", "_S.got_verified_key")]),
    ("Receive.W_happy", [("-", "_B.happy")]),
    ("Receive.W_got_verifier", [("-", "derive_key"), ("-", "_B.got_verifier")]),
    ("Receive.W_got_message", [("-", "_B.got_message")]),
    ("Receive.W_scared", [("-", "_B.scared")]),
    ("Send.queue", []),
    ("Send.record_key", []),
    ("Send.drain", [("for", "self._encrypt_and_send")]),
    ("Send.deliver", [("-", "self._encrypt_and_send")]),
    ("Send._encrypt_and_send", [("-", "derive_phase_key"), ("-", "encrypt_data"), ("-", "_M.add_message")]),
    ("Boss.do_got_code", [("-", "_W.got_code")]),
    ("Boss.W_got_key", [("-", "_W.got_key")]),
    ("Boss.W_got_verifier", [("-", "_W.got_verifier")]),
    ("Boss.process_version", [("-", "_D.got_wormhole_versions"), ("-", "_W.got_versions")]),
    ("Boss.W_received", [("while", "_W.received")]),
    ("Boss.S_send", [("-", "_S.send")]),
    ("Boss.close_scared", [("-", "WrongPasswordError"), ("-", "_T.close")]),
    ("Boss.close_lonely", [("-", "LonelyError"), ("-", "_T.close")]),
    ("Boss.close_happy", [("-", "_T.close")]),
    ("Boss.W_closed", [("-", "_W.closed")]),
    ("Code.do_set_code", [("-", "_N.set_nameplate"), ("-", "_B.got_code"), ("-", "_K.got_code")]),
    ("Code.do_finish_input", [("-", "_B.got_code"), ("-", "_K.got_code")]),
    ("Code.do_finish_allocate", [("-", "_N.set_nameplate"), ("-", "_B.got_code"), ("-", "_K.got_code")]) ]

def shapeAgrees : Bool :=
  callShape.all (fun e => Skel.skeleton e.1 == e.2)


/-! ## a toy instance (used by the driver, and proved `Ideal` in `Proofs/C01_Toy.lean`) -/

def enc2 (a b : Bytes) : Bytes := a.length :: (a ++ b)

def dec2 : Bytes → Option (Bytes × Bytes)
  | [] => none
  | l :: rest => if l ≤ rest.length then some (rest.take l, rest.drop l) else none

/-- free-term style primitives: every result spells out its arguments, so equal results mean equal
    arguments.  `nfc` is a parameter (the driver is told the normal forms by the harness). -/
def toyCrypto (nfc : PyStr → PyStr) : Crypto where
  nfc := nfc
  pakeStart := fun pw _ r => enc2 r pw
  pakeFinish := fun pw idS r msg2 =>
    match dec2 msg2 with
    | none => none
    | some (r', pw') =>
      if r' = r then none                               -- our own element reflected
      else if pw' = pw then some (0 :: enc2 pw idS)
      else some (1 :: enc2 r (enc2 pw idS))
  hkdf := fun k i n => if n = 0 then [] else n :: enc2 k i
  sha256 := fun b => b
  box := fun k n p => enc2 k (enc2 n p)
  unbox := fun k c =>
    match dec2 c with
    | none => none
    | some (k', rest) => if k' = k then (dec2 rest).map (·.2) else none

/-! ## driver (line protocol)

```
nfc <rawhex> <nfchex>                 -> ok        (declare the NFC form of a string)
                                                   (strings = hex of their UTF-8, surrogates passed through: `hexOfPy`)
client <i> <appidhex> <versionshex>   -> ok        (create client i; side "s<i>", scalar [i])
code <i> <codehex>                    -> summary   (B.got_code; K.got_code)
rx <i> <from> <phase>                 -> summary   (O.got_message with the body client <from> sent for <phase>)
rxbad <i> <from> <phase> <kind>       -> summary   (kind: nopake = body without usable pake_v1 | refused = element the
                                                    library refuses (malformed, reflected, wrong side) | accepted = a
                                                    stranger's valid element | garbage = undecryptable non-PAKE body)
send <i> <hex> | close <i> | closed <i>            -> summary
derive <i> <purposehex> <n>           -> #k | NoKeyError | UnicodeEncodeError | ValueError
```
summary = `<ok|Exception> K=… SK=… O=… R=… S=… B=… | ev; ev; …` with the events of this step; secret
byte strings (keys, verifiers, derived keys) are shown as `#k`, k = first-occurrence index in the run.
-/

/-- wire format of a `PyStr` on the line protocol: hex of `s.encode("utf-8", "surrogatepass")`, i.e.
    UTF-8 with the surrogates written as ordinary three-byte sequences (for every encodable string this
    is the hex of its UTF-8, as everywhere else) -/
def wireCp (c : Nat) : Bytes :=
  if c < 0x80 then [c]
  else if c < 0x800 then [0xC0 + c / 64, 0x80 + c % 64]
  else if c < 0x10000 then [0xE0 + c / 4096, 0x80 + c / 64 % 64, 0x80 + c % 64]
  else [0xF0 + c / 262144 % 8, 0x80 + c / 4096 % 64, 0x80 + c / 64 % 64, 0x80 + c % 64]

def hexOfPy (s : PyStr) : String := toHex (s.flatMap wireCp)

def isCont (b : Nat) : Bool := 0x80 ≤ b && b < 0xC0

/-- the inverse of `wireCp` on byte lists (structure only; shortest-form is not checked: the harness
    writes these lines with python's encoder).  `Proofs.C01.wire_roundtrip`: decoding what `hexOfPy`
    writes gives the string back, surrogates included. -/
def pyOfBytes : Bytes → Option PyStr
  | [] => some []
  | b :: rest =>
    if b < 0x80 then (pyOfBytes rest).map (b :: ·)
    else
      match rest with
      | [] => none
      | b1 :: r1 =>
        if 0xC0 ≤ b ∧ b < 0xE0 then
          if isCont b1 then (pyOfBytes r1).map (((b - 0xC0) * 64 + (b1 - 0x80)) :: ·) else none
        else
          match r1 with
          | [] => none
          | b2 :: r2 =>
            if 0xE0 ≤ b ∧ b < 0xF0 then
              if isCont b1 && isCont b2 then
                (pyOfBytes r2).map (((b - 0xE0) * 4096 + (b1 - 0x80) * 64 + (b2 - 0x80)) :: ·)
              else none
            else
              match r2 with
              | [] => none
              | b3 :: r3 =>
                if 0xF0 ≤ b ∧ b < 0xF8 then
                  if isCont b1 && isCont b2 && isCont b3 then
                    (pyOfBytes r3).map
                      (((b - 0xF0) * 262144 + (b1 - 0x80) * 4096 + (b2 - 0x80) * 64 + (b3 - 0x80)) :: ·)
                  else none
                else none

def pyOfHex? (h : String) : Option PyStr := do
  let b ← fromHex? h
  pyOfBytes b

structure Wd where
  nfcTbl : List (PyStr × PyStr)
  clients : List (Nat × Cfg × St)
  vals : List Bytes

def wdInit : Wd := { nfcTbl := [], clients := [], vals := [] }

def Wd.crypto (w : Wd) : Crypto :=
  toyCrypto (fun s => match w.nfcTbl.lookup s with | some t => t | none => s)

def Wd.get (w : Wd) (i : Nat) : Option (Cfg × St) := w.clients.lookup i

def Wd.set (w : Wd) (i : Nat) (cfg : Cfg) (s : St) : Wd :=
  { w with clients := (i, cfg, s) :: w.clients.filter (fun e => e.1 != i) }

def valIndex (vals : List Bytes) (b : Bytes) : List Bytes × Nat :=
  match vals.idxOf? b with
  | some k => (vals, k)
  | none => (vals ++ [b], vals.length)

def showEv (vals : List Bytes) : Ev → List Bytes × String
  | .wCode c => (vals, "code " ++ hexOfPy c)
  | .wKey k => let (v, i) := valIndex vals k; (v, s!"key #{i}")
  | .wVerifier k => let (v, i) := valIndex vals k; (v, s!"verifier #{i}")
  | .wVersions b => (vals, "versions " ++ toHex b)
  | .wReceived b => (vals, "msg " ++ toHex b)
  | .wClosed r => (vals, "closed " ++ r.name)
  | .mAdd ph _ => (vals, "add " ++ ph)
  | .tClose m => (vals, "tclose " ++ m)

def showEvs : List Bytes → List Ev → List Bytes × List String
  | vals, [] => (vals, [])
  | vals, e :: es =>
    let (v1, x) := showEv vals e
    let (v2, xs) := showEvs v1 es
    (v2, x :: xs)

def showStates (s : St) : String :=
  s!"K={Key.State.name s.k} SK={SortedKey.State.name s.sk} O={Order.State.name s.o} R={Receive.State.name s.r} S={Send.State.name s.s} B={Boss.State.name s.b}"

/-- apply one client step and print what it did -/
def clientStep (w : Wd) (i : Nat) (f : Crypto → Cfg → St → Res) : Wd × String :=
  match w.get i with
  | none => (w, "noclient")
  | some (cfg, s) =>
    let (s', ex) := f w.crypto cfg s
    let newEvs := s'.out.drop s.out.length
    let (vals', shown) := showEvs w.vals newEvs
    let w' := { (w.set i cfg s') with vals := vals' }
    let head := match ex with | none => "ok" | some e => e.name
    (w', s!"{head} {showStates s'} | {"; ".intercalate shown}")

def step (w : Wd) (line : String) : Wd × String :=
  match tokens line with
  | ["reset"] => (wdInit, "ok")
  | ["nfc", a, b] =>
    match pyOfHex? a, pyOfHex? b with
    | some x, some y => ({ w with nfcTbl := w.nfcTbl ++ [(x, y)] }, "ok")
    | _, _ => (w, "bad-op")
  | ["client", i, appid, versions] =>
    match i.toNat?, pyOfHex? appid, fromHex? versions with
    | some n, some a, some v =>
      (w.set n { side := s!"s{n}", appid := a, versions := v, rnd := [n] } init, "ok")
    | _, _, _ => (w, "bad-op")
  | ["code", i, c] =>
    match i.toNat?, pyOfHex? c with
    | some n, some code => clientStep w n (fun C cfg => gotCode C cfg code)
    | _, _ => (w, "bad-op")
  | ["rx", i, frm, phase] =>
    match i.toNat?, frm.toNat? with
    | some n, some f =>
      match w.get f with
      | none => (w, "noclient")
      | some (fcfg, fs) =>
        match sentBody phase fs.out with
        | none => (w, "nomsg")
        | some body => clientStep w n (fun C cfg => orderGotMessage C cfg ⟨fcfg.side, phase, body⟩)
    | _, _ => (w, "bad-op")
  | ["rxbad", i, frm, phase, kind] =>
    match i.toNat?, frm.toNat? with
    | some n, some f =>
      let body : Bytes :=
        if kind = "nopake" then [2]
        else if kind = "refused" then pakeBody []
        else if kind = "accepted" then pakeBody (enc2 [99] [99])
        else []
      clientStep w n (fun C cfg => orderGotMessage C cfg ⟨s!"s{f}", phase, body⟩)
    | _, _ => (w, "bad-op")
  | ["send", i, h] =>
    match i.toNat?, fromHex? h with
    | some n, some pt => clientStep w n (fun C cfg => bossIn C cfg (.send pt))
    | _, _ => (w, "bad-op")
  | ["close", i] =>
    match i.toNat? with
    | some n => clientStep w n (fun C cfg => bossIn C cfg .close)
    | none => (w, "bad-op")
  | ["closed", i] =>
    match i.toNat? with
    | some n => clientStep w n (fun C cfg => bossIn C cfg .closed)
    | none => (w, "bad-op")
  | ["derive", i, p, n] =>
    match i.toNat?, pyOfHex? p, n.toNat? with
    | some c, some purpose, some len =>
      match w.get c with
      | none => (w, "noclient")
      | some (_, s) =>
        match deriveKey w.crypto s purpose len with
        | .error e => (w, e.name)
        | .ok b => let (v, k) := valIndex w.vals b; ({ w with vals := v }, s!"#{k}")
    | _, _, _ => (w, "bad-op")
  | _ => (w, "bad-op")

def driver (lines : List String) : List String := runLines step wdInit lines

end WV.C01
