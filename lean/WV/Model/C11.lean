import WV.Model.Basic
import WV.Gen.T_Manager
import WV.Gen.T_Connector
import WV.Gen.T_DCP
import WV.Gen.T_TrafficTimer
import Std.Data.HashSet

/-!
# C11 — two-sided control model of Dilation connection management (`WV.C11`)

Two sides `A`, `B`; each is `Dilator` glue + `Manager` (generated table `Gen.Manager.table`) + its
current `Connector` (`Gen.Connector.table`) + the `DilatedConnectionProtocol` ends of the links
(`Gen.DCP.table`) + the leader's `TrafficTimer` + the side's eventual queue.  Between them: one FIFO
channel per sender through the mailbox (`please / connection-hints / reconnect / reconnecting`) and
links, each with two ends.

What is abstracted (and only this):
* a link's byte stream is a token stream: `hs` = prologues + Noise handshakes exchanged (the follower
  then has its KCM in flight, `kf`), `kcmf` / `kcml` = delivery of the follower's / leader's KCM;
* connector generations are not numbered: an end remembers whether it belongs to the side's
  *current* connector (`owner = none`) or to an old one frozen in state `st` (`owner = some st`);
  a hints message / a scheduled connection remembers whether it names the peer's current listener;
* an end is `open`, `closing` (this side called `loseConnection`) or `lost` (`connectionLost` ran);
  a `closing` / `lost` end receives nothing more and what it writes is dropped;
* slots of links whose two ends are `lost` and that nothing refers to any more are reused.
The statements of `Manager`/`Connector`/`Dilator` methods are mirrored one by one below.
-/
namespace WV.C11
open WV.Gen

inductive SideId where
  | A | B
  deriving DecidableEq, Repr, Inhabited, Hashable

def SideId.other : SideId → SideId
  | .A => .B
  | .B => .A

def SideId.name : SideId → String
  | .A => "A"
  | .B => "B"

inductive Role where
  | leader | follower
  deriving DecidableEq, Repr, Inhabited, Hashable

inductive Msg where
  | please
  | hints (fresh : Bool)     -- `fresh`: names the listener of the sender's CURRENT connector
  | rhints (fresh : Bool)    -- the relay hint of a side configured with `transit_relay_location`; `fresh`: sent by its CURRENT connector
  | reconnect
  | reconnecting
  deriving DecidableEq, Repr, Inhabited, Hashable

inductive Status where
  | open_ | closing | lost
  deriving DecidableEq, Repr, Inhabited, Hashable

/-- a scheduled outbound connection (`Connector._schedule_connection`): to a listener of the peer
    (`fresh`: of its CURRENT connector) or to the transit relay -/
inductive Att where
  | direct (fresh : Bool)
  | relay
  deriving DecidableEq, Repr, Inhabited, Hashable

instance : Coe Bool Att := ⟨.direct⟩

def Att.stale : Att → Att
  | .direct _ => .direct false
  | .relay => .relay

inductive EqCall where
  | accept (l : Nat)         -- `eventually(self.accept, c)` from `Connector.consider`
  | lostcb (l : Nat)         -- the `when_disconnected()` callback `manager.connector_connection_lost()`
  deriving DecidableEq, Repr, Inhabited, Hashable

def EqCall.link : EqCall → Nat
  | .accept l => l
  | .lostcb l => l

/-- Python exceptions, as values -/
inductive Exn where
  | ntManager (st : Manager.State) (i : Manager.Input)
  | ntConnector (st : Connector.State) (i : Connector.Input)
  | ntDCP (st : DCP.State) (i : DCP.Input)
  | ntTraffic (st : TrafficTimer.State) (i : TrafficTimer.Input)
  | valueError            -- choose_role: equal sides
  | assertion             -- `assert self._my_role is not None` / `assert self._dilation_key is not None` / `assert self._can_send_records`
  | attributeError        -- `self._connection.disconnect()` on None, `self._connector` missing
  | staleConnector        -- an input with outputs reached a connector that is not the current one (never: see `safe`)
  deriving DecidableEq, Repr, Inhabited, Hashable

def Exn.name : Exn → String
  | .ntManager .. | .ntConnector .. | .ntDCP .. | .ntTraffic .. => "NoTransition"
  | .valueError => "ValueError"
  | .assertion => "AssertionError"
  | .attributeError => "AttributeError"
  | .staleConnector => "StaleConnector"

/-- L2 records that travel on a link after the KCMs (C11 needs their control effects only) -/
inductive Rec where
  | open_ (seq : Nat)        -- an Open/Data/Close: has a seqnum, is queued until acked, is re-sent by `Outbound.use_connection`
  | ack (seq : Nat)
  | ping
  | pong
  deriving DecidableEq, Repr, Inhabited, Hashable

structure End where
  owner : Option Connector.State := none   -- none: the side's current connector; some st: an old one, frozen in st
  dcp : DCP.State := DCP.init
  status : Status := .open_
  inq : List Rec := []       -- DilatedConnectionProtocol._inbound_record_queue (records read while `selecting`)
  deriving DecidableEq, Repr, Inhabited, Hashable

structure Link where
  dialer : SideId
  hs : Bool := false        -- prologues and handshakes exchanged
  kf : Bool := false        -- the follower's KCM is in flight to the leader
  kl : Bool := false        -- the leader's KCM is in flight to the follower
  a : End := {}
  b : End := {}
  qa : List Rec := []       -- records written by A after its KCM, not yet delivered
  qb : List Rec := []
  sa : Bool := false        -- silent loss: what A writes is no longer delivered (neither end is told)
  sb : Bool := false
  relay : Bool := false     -- made by the transit relay: BOTH ends dialled (both are in their Connector's _pending_connections)
  deriving DecidableEq, Repr, Inhabited, Hashable

def Link.q (k : Link) : SideId → List Rec
  | .A => k.qa
  | .B => k.qb

def Link.setQ (k : Link) (x : SideId) (q : List Rec) : Link :=
  match x with
  | .A => { k with qa := q }
  | .B => { k with qb := q }

def Link.silent (k : Link) : SideId → Bool
  | .A => k.sa
  | .B => k.sb

def Link.end_ (k : Link) : SideId → End
  | .A => k.a
  | .B => k.b

def Link.setEnd (k : Link) (x : SideId) (e : End) : Link :=
  match x with
  | .A => { k with a := e }
  | .B => { k with b := e }

structure Side where
  dil : Bool := false       -- dilate() was called: the Manager exists
  key : Bool := false
  vers : Bool := false
  pend : List Msg := []     -- Dilator._pending_inbound_dilate_messages
  mgr : Manager.State := Manager.init
  role : Option Role := none
  con : Option Connector.State := none     -- state of Manager._connector
  lst : Bool := false       -- the current connector's listener is open
  stale : Bool := false     -- a listener of an old connector is still open
  att : List Att := []      -- scheduled outbound connections whose deferLater has not fired yet, oldest first
  fly : List Att := []      -- connection attempts in flight: `_connect` ran, `ep.connect()` has not answered yet
  rhalf : Option End := none  -- this side's connection to the relay, waiting there for the peer's (relay handshake sent, no `ok` yet)
  conn : Option Nat := none -- Manager._connection (slot of the link)
  eq : List EqCall := []    -- the control-relevant calls waiting in the EventualQueue
  tt : Option TrafficTimer.State := none
  timer : Bool := false     -- Manager._timer: the ping interval DelayedCall is pending
  oq : List Nat := []       -- seqnums in Outbound._outbound_queue (sent or not, not yet acked)
  nseq : Nat := 0           -- Outbound._next_outbound_seqnum
  rxh : Nat := 0            -- Inbound._highest_inbound_acked + 1
  deriving DecidableEq, Repr, Inhabited, Hashable

structure Sys where
  cmp : Ordering := .gt     -- compare (side string of A) (side string of B)
  a : Side := {}
  b : Side := {}
  ab : List Msg := []       -- sent by A, not yet delivered to B's Dilator (FIFO)
  ba : List Msg := []
  links : List (Option Link) := []
  /-- reachability of the network, fixed for the whole run: can a connection DIALLED by A (by B) get
      through to the peer's listener?  (NAT / firewall / `no_listen` on the other side.)  The
      property's proviso needs at least one direction. -/
  ra : Bool := true
  rb : Bool := true
  /-- the side (at most one) that was given `transit_relay_location`: its Connector publishes the relay hint in
      every generation and dials the relay itself; the peer dials it only when it is handed that hint.  The
      relay is reachable by both; it joins the two connections that wait there. -/
  relay : Option SideId := none
  deriving DecidableEq, Repr, Inhabited

instance : Hashable Ordering where
  hash o := match o with | .lt => 1 | .eq => 2 | .gt => 3

instance : Hashable Sys where
  hash s := mixHash (hash s.cmp) (mixHash (hash s.a) (mixHash (hash s.b) (mixHash (hash s.ab) (mixHash (hash s.ba) (mixHash (hash s.links) (hash (s.ra, s.rb, s.relay)))))))

def Sys.side (s : Sys) : SideId → Side
  | .A => s.a
  | .B => s.b

/-- do connections dialled by `x` get through? -/
def Sys.reach (s : Sys) : SideId → Bool
  | .A => s.ra
  | .B => s.rb

def Sys.setSide (s : Sys) (x : SideId) (sd : Side) : Sys :=
  match x with
  | .A => { s with a := sd }
  | .B => { s with b := sd }

def Sys.modSide (s : Sys) (x : SideId) (f : Side → Side) : Sys := s.setSide x (f (s.side x))

/-- channel of messages sent by `x` -/
def Sys.chanFrom (s : Sys) : SideId → List Msg
  | .A => s.ab
  | .B => s.ba

def Sys.setChanFrom (s : Sys) (x : SideId) (c : List Msg) : Sys :=
  match x with
  | .A => { s with ab := c }
  | .B => { s with ba := c }

def Sys.link? (s : Sys) (l : Nat) : Option Link := (s.links[l]?).join

def setNth {α : Type} : List α → Nat → α → List α
  | [], _, _ => []
  | _ :: t, 0, v => v :: t
  | h :: t, n + 1, v => h :: setNth t n v

def Sys.setLink (s : Sys) (l : Nat) (k : Link) : Sys := { s with links := setNth s.links l (some k) }

def Sys.modEnd (s : Sys) (x : SideId) (l : Nat) (f : End → End) : Sys :=
  match s.link? l with
  | some k => s.setLink l (k.setEnd x (f (k.end_ x)))
  | none => s

def Sys.roleSide (s : Sys) (r : Role) : Option SideId :=
  if s.a.role = some r then some .A else if s.b.role = some r then some .B else none

/-- result of running code that may raise: the (possibly partially) updated state and the exception -/
abbrev R := Sys × Option Exn

def andThen (r : R) (f : Sys → R) : R :=
  match r with
  | (s, none) => f s
  | (s, some e) => (s, some e)

def seqAll {α : Type} (f : α → Sys → R) : List α → Sys → R
  | [], s => (s, none)
  | o :: os, s => andThen (f o s) (seqAll f os)

/-- `Manager.send_dilation_generation`: the message goes to the mailbox, FIFO per sender -/
def send (x : SideId) (m : Msg) (s : Sys) : Sys := s.setChanFrom x (s.chanFrom x ++ [m])

def loseConnection (e : End) : End := if e.status = .open_ then { e with status := .closing } else e

def mapLinks (f : Nat → Link → Link) (ls : List (Option Link)) : List (Option Link) :=
  let rec go : Nat → List (Option Link) → List (Option Link)
    | _, [] => []
    | i, none :: t => none :: go (i + 1) t
    | i, some k :: t => some (f i k) :: go (i + 1) t
  go 0 ls

/-- `Connector.stop_pending_connections`: disconnect() every outbound protocol of the current
    connector that connected and is not the winner -/
def stopPendingConnections (x : SideId) (except : Option Nat) (s : Sys) : Sys :=
  { s with links := mapLinks (fun i k =>
      let e := k.end_ x
      if (k.relay ∨ k.dialer = x) ∧ e.owner = none ∧ some i ≠ except then k.setEnd x (loseConnection e) else k) s.links }.modSide x
    -- a connection still waiting at the relay is dropped too (it is closed; the relay forgets it)
    (fun sd => match sd.rhalf with
      | some e => if e.owner = none then { sd with rhalf := none } else sd
      | none => sd)

def unstale : Msg → Msg
  | .hints _ => .hints false
  | .rhints _ => .rhints false
  | m => m

/-- bookkeeping when side `x` replaces its connector: its ends, its hints in flight and the peer's
    scheduled connections now belong to / name an OLD connector, frozen in its last state -/
def retireConnector (x : SideId) (s : Sys) : Sys :=
  let sd := s.side x
  match sd.con with
  | none => s
  | some st =>
    let s := { s with links := mapLinks (fun _ k =>
      let e := k.end_ x
      if e.owner = none then k.setEnd x { e with owner := some st } else k) s.links }
    let s := s.setChanFrom x ((s.chanFrom x).map unstale)
    let s := s.modSide x.other (fun p => { p with att := p.att.map Att.stale, fly := p.fly.map Att.stale, pend := p.pend.map unstale })
    s.modSide x (fun sd => { sd with stale := sd.stale || sd.lst, lst := false,
                                     rhalf := sd.rhalf.map (fun e => if e.owner = none then { e with owner := some st } else e) })

/-- `DilatedConnectionProtocol.send_record` on end `(x, l)`: `assert self._can_send_records` (set by
    `select`), then the frame is written — a transport that is closing / lost drops it -/
def writeRec (x : SideId) (l : Nat) (r : Rec) (s : Sys) : R :=
  match s.link? l with
  | none => (s, some .attributeError)
  | some k =>
    let e := k.end_ x
    if e.dcp ≠ .selected then (s, some .assertion)
    else if e.status = .open_ then (s.setLink l (k.setQ x (k.q x ++ [r])), none)
    else (s, none)

/-- `Outbound.send_if_connected` (Ping / Pong / Ack are never queued) -/
def sendIfConnected (x : SideId) (r : Rec) (s : Sys) : R :=
  match (s.side x).conn with
  | some l => writeRec x l r s
  | none => (s, none)

def ttOutput (x : SideId) (o : TrafficTimer.Output) (s : Sys) : R :=
  match o with
  | .begin_timing =>
    -- Manager._send_ping_reset_timer: send_ping, then start (or extend) the interval timer
    andThen (sendIfConnected x .ping s) (fun s => (s.modSide x (fun sd => { sd with timer := true }), none))
  | .signal_reconnect =>
    -- Manager._signal_reconnect: `if self._connection: self._connection.disconnect()`
    match (s.side x).conn with
    | some l => (s.modEnd x l loseConnection, none)
    | none => (s, none)

def ttInput (x : SideId) (i : TrafficTimer.Input) (s : Sys) : R :=
  match (s.side x).tt with
  | none => (s, some .attributeError)
  | some st =>
    match TrafficTimer.table st i with
    | none => (s, some (.ntTraffic st i))
    | some (st', outs) =>
      seqAll (ttOutput x) outs (s.modSide x (fun sd => { sd with tt := some st' }))

/-- `Manager.got_record(r)` -/
def gotRecord (x : SideId) (r : Rec) (s : Sys) : R :=
  match r with
  | .open_ n =>
    -- always ack, even old ones; then ignore old ones; update the watermark; Inbound.handle_* (no control effect)
    andThen (sendIfConnected x (.ack n) s) (fun s =>
      if n < (s.side x).rxh then (s, none)
      else (s.modSide x (fun sd => { sd with rxh := n + 1 }), none))
  | .ack n => (s.modSide x (fun sd => { sd with oq := sd.oq.dropWhile (· ≤ n) }), none)     -- Outbound.handle_ack
  | .ping => sendIfConnected x .pong s
  | .pong =>
    -- handle_pong -> on_pong -> self._traffic.traffic_seen()
    ttInput x .traffic_seen s

/-- the DCP input `got_record` at end `(x, l)` -/
def dcpGotRecord (x : SideId) (l : Nat) (r : Rec) (s : Sys) : R :=
  match s.link? l with
  | none => (s, none)
  | some k =>
    let e := k.end_ x
    match DCP.table e.dcp .got_record with
    | none => (s, some (.ntDCP e.dcp .got_record))
    | some (d', outs) =>
      let s := s.modEnd x l (fun e => { e with dcp := d' })
      seqAll (fun o s => match o with
        | .deliver_record => gotRecord x r s
        | .queue_inbound_record => (s.modEnd x l (fun e => { e with inq := e.inq ++ [r] }), none)
        | _ => (s, none)) outs s

mutual

/-- an input of the Manager of side `x` (`fresh`: for rx_HINTS, whether the hints name the peer's current listener) -/
def mgrInput (fuel : Nat) (x : SideId) (i : Manager.Input) (fresh : Att) (s : Sys) : R :=
  match fuel with
  | 0 => (s, some .staleConnector)
  | fuel + 1 =>
    match Manager.table (s.side x).mgr i with
    | none => (s, some (.ntManager (s.side x).mgr i))
    | some (st', outs) =>
      let s := s.modSide x (fun sd => { sd with mgr := st' })
      seqAll (mgrOutput fuel x fresh) outs s

def mgrOutput (fuel : Nat) (x : SideId) (fresh : Att) (o : Manager.Output) (s : Sys) : R :=
  match fuel with
  | 0 => (s, some .staleConnector)
  | fuel + 1 =>
  match o with
  | .send_please => (send x .please s, none)
  | .choose_role =>
    -- `if self._my_side > their_side: LEADER elif their_side > self._my_side: FOLLOWER else: raise ValueError`
    let mine := match x with | .A => s.cmp | .B => s.cmp.swap
    match mine with
    | .gt => (s.modSide x (fun sd => { sd with role := some .leader }), none)
    | .lt => (s.modSide x (fun sd => { sd with role := some .follower }), none)
    | .eq => (s, some .valueError)
  | .start_connecting | .start_connecting_ignore_message =>
    -- _start_connecting: two asserts, Connector(...), connector.start()
    if (s.side x).role = none then (s, some .assertion) else
    if !(s.side x).key then (s, some .assertion) else
    let s := retireConnector x s
    let s := s.modSide x (fun sd => { sd with con := some Connector.init, lst := true })
    -- start(): _start_listener -> (listen() fires at once) listener_ready(direct_hints)
    andThen (conInput fuel x none .listener_ready 0 true s) (fun s =>
      -- `if self._transit_relays: self._publish_hints(self._transit_relays); self._use_hints(self._transit_relays)`
      -- (plain method calls, not inputs of the Connector's machine)
      if s.relay = some x then
        let s := send x (.rhints true) s
        (s.modSide x (fun sd => { sd with att := sd.att ++ [.relay] }), none)
      else (s, none))
  | .send_reconnect => (send x .reconnect s, none)
  | .send_reconnecting => (send x .reconnecting s, none)
  | .use_hints => conInput fuel x none .got_hints 0 fresh s
  | .stop_connecting => conInput fuel x none .k_stop 0 false s
  | .abandon_connection =>
    let s := s.modSide x (fun sd => { sd with timer := false })      -- `if self._timer is not None: cancel`
    match (s.side x).conn with
    | none => (s, some .attributeError)
    | some l => (s.modEnd x l loseConnection, none)
  | .notify_stopped | .send_status_connecting | .send_status_dilation_generation
  | .send_status_reconnecting | .send_status_stopped => (s, none)

/-- an input of a Connector of side `x`: the current one (`owner = none`) or an old one frozen in `st` -/
def conInput (fuel : Nat) (x : SideId) (owner : Option Connector.State) (i : Connector.Input) (l : Nat) (fresh : Att) (s : Sys) : R :=
  match fuel with
  | 0 => (s, some .staleConnector)
  | fuel + 1 =>
  match owner with
  | some st =>
    match Connector.table st i with
    | none => (s, some (.ntConnector st i))
    | some (_, []) => (s, none)
    | some (_, _ :: _) => (s, some .staleConnector)
  | none =>
    match (s.side x).con with
    | none => (s, some .attributeError)
    | some st =>
      match Connector.table st i with
      | none => (s, some (.ntConnector st i))
      | some (st', outs) =>
        let s := s.modSide x (fun sd => { sd with con := some st' })
        seqAll (conOutput fuel x l fresh) outs s

def conOutput (fuel : Nat) (x : SideId) (l : Nat) (fresh : Att) (o : Connector.Output) (s : Sys) : R :=
  match fuel with
  | 0 => (s, some .staleConnector)
  | fuel + 1 =>
  match o with
  | .publish_hints => (send x (.hints true) s, none)                     -- manager.send_hints
  | .use_hints => (s.modSide x (fun sd => { sd with att := sd.att ++ [fresh] }), none)   -- _schedule_connection (one hint per listener)
  | .consider => (s.modSide x (fun sd => { sd with eq := sd.eq ++ [.accept l] }), none)
  | .stop_everything =>
    -- stop_listeners; stop_pending_connectors: `d.cancel()` stops a delayed call that has not fired and, through the
    -- chained Deferred, aborts an `ep.connect()` that is still in flight
    let s := s.modSide x (fun sd => { sd with lst := false, att := [], fly := [] })
    (stopPendingConnections x none s, none)
  | .select_and_stop_remaining =>
    let s := s.modSide x (fun sd => { sd with lst := false, att := [], fly := [] })
    let s := stopPendingConnections x (some l) s
    -- c.select(manager)
    match s.link? l with
    | none => (s, some .attributeError)
    | some k =>
      let e := k.end_ x
      match DCP.table e.dcp .select with
      | none => (s, some (.ntDCP e.dcp .select))
      | some (d', _) =>
        let s := s.modEnd x l (fun e => { e with dcp := d' })
        -- set_manager: when_disconnected().addCallback(...): fires (eventually) at once if already lost
        let s := if e.status = .lost then s.modSide x (fun sd => { sd with eq := sd.eq ++ [.lostcb l] }) else s
        -- process_inbound_queue: what was read while `selecting` goes to the Manager now (Outbound has no connection yet)
        let s := s.modEnd x l (fun e => { e with inq := [] })
        andThen (seqAll (gotRecord x) e.inq s) fun s =>
        -- if self._role is LEADER: c.send_record(KCM())   (can_send_records was just set; a write on a dead transport is dropped)
        let s := if (s.side x).role = some .leader ∧ e.status = .open_ then
                   (match s.link? l with | some k => s.setLink l { k with kl := true } | none => s) else s
        connectionMade fuel x l s

/-- `Manager.connector_connection_made(c)` -/
def connectionMade (fuel : Nat) (x : SideId) (l : Nat) (s : Sys) : R :=
  match fuel with
  | 0 => (s, some .staleConnector)
  | fuel + 1 =>
    let r : R :=
      if (s.side x).role = some .leader then
        let s := if (s.side x).tt = none then s.modSide x (fun sd => { sd with tt := some TrafficTimer.init }) else s
        ttInput x .got_connection s
      else (s, none)
    andThen r (fun s =>
      andThen (mgrInput fuel x .connection_made false s) (fun s =>
        let s := s.modSide x (fun sd => { sd with conn := some l })
        -- Outbound.use_connection(c): every queued (un-acked) record is sent again, in order
        seqAll (fun n s => writeRec x l (.open_ n) s) (s.side x).oq s))

end

def FUEL : Nat := 12

/-- `Manager.connector_connection_lost()` -/
def connectionLost (x : SideId) (s : Sys) : R :=
  let r : R := if (s.side x).tt.isSome then ttInput x .lost_connection s else (s, none)
  andThen r (fun s =>
    let s := s.modSide x (fun sd => { sd with conn := none, timer := false })        -- _stop_using_connection (cancels the ping timer)
    if (s.side x).role = some .leader then mgrInput FUEL x .connection_lost_leader false s
    else mgrInput FUEL x .connection_lost_follower false s)

/-- `Manager.received_dilation_message` -/
def receivedMessage (x : SideId) (m : Msg) (s : Sys) : R :=
  match m with
  | .please => mgrInput FUEL x .rx_PLEASE false s
  | .hints f => mgrInput FUEL x .rx_HINTS (.direct f) s
  | .rhints _ => mgrInput FUEL x .rx_HINTS .relay s
  | .reconnect => mgrInput FUEL x .rx_RECONNECT false s
  | .reconnecting => mgrInput FUEL x .rx_RECONNECTING false s

/-- `Dilator.received_dilate` -/
def dilatorReceived (x : SideId) (m : Msg) (s : Sys) : R :=
  if !(s.side x).dil then (s.modSide x (fun sd => { sd with pend := sd.pend ++ [m] }), none)
  else receivedMessage x m s

/-- the `while self._pending_inbound_dilate_messages:` loop of `Dilator.dilate` -/
def flushPending (x : SideId) : Nat → Sys → R
  | 0, s => (s, none)
  | n + 1, s =>
    match (s.side x).pend with
    | [] => (s, none)
    | m :: rest =>
      let s := s.modSide x (fun sd => { sd with pend := rest })       -- popleft()
      andThen (receivedMessage x m s) (flushPending x n)

/-- a DCP input arriving from the wire at end `(x, l)`: `got_kcm` -/
def dcpGotKcm (x : SideId) (l : Nat) (s : Sys) : R :=
  match s.link? l with
  | none => (s, none)
  | some k =>
    let e := k.end_ x
    match DCP.table e.dcp .got_kcm with
    | none => (s, some (.ntDCP e.dcp .got_kcm))
    | some (d', outs) =>
      let s := s.modEnd x l (fun e => { e with dcp := d' })
      seqAll (fun o s => match o with
        | .add_candidate => conInput FUEL x e.owner .add_candidate l false s
        | _ => (s, none)) outs s

inductive Event where
  | key (x : SideId)
  | vers (x : SideId)
  | dilate (x : SideId)
  | deliver (x : SideId)       -- the next mailbox message for `x` reaches its Dilator
  | connect (x : SideId)       -- the oldest outbound connection attempt of `x` is answered (established / refused / joined at the relay)
  | cut (x : SideId)           -- the network changes: from now on connections DIALLED by `x` no longer get through
  | dial (x : SideId)          -- the deferLater of the oldest scheduled connection of `x` fires: the attempt is in flight
  | turn1 (x : SideId)         -- the eventual queue of `x` runs its oldest call
  | sigrec (x : SideId)        -- TrafficTimer.on_reconnect: Manager._signal_reconnect
  | hs (l : Nat)
  | kcmf (l : Nat)
  | kcml (l : Nat)
  | lose (x : SideId) (l : Nat)  -- connectionLost at end (x, l)
  | write (x : SideId)         -- the application opens a subchannel: one more record with a seqnum (Manager.send_open)
  | tick (x : SideId)          -- the ping interval DelayedCall of `x` fires
  | silence (x : SideId) (l : Nat)  -- silent loss: from now on nothing `x` writes on link l arrives; nobody is told
  | more (x : SideId) (l : Nat)     -- the next record written by `x` on link l reaches the other end
  deriving DecidableEq, Repr, Inhabited, Hashable

inductive Outcome where
  | ok
  | skip
  | exn (e : Exn)              -- left an entry point
  | logged (e : Exn)           -- raised inside an eventual-queue call: logged and swallowed
  deriving DecidableEq, Repr, Inhabited

def firstFree : List (Option Link) → Nat
  | [] => 0
  | none :: _ => 0
  | some _ :: t => firstFree t + 1

def placeLink (ls : List (Option Link)) (k : Link) : List (Option Link) :=
  let i := firstFree ls
  if i < ls.length then setNth ls i (some k) else ls ++ [some k]

def eqRefs (sd : Side) (l : Nat) : Bool := sd.eq.any (fun c => c.link == l) || sd.conn == some l

def trimNone : List (Option Link) → List (Option Link)
  | [] => []
  | h :: t =>
    match h, trimNone t with
    | none, [] => []
    | h, t' => h :: t'

/-- slots of links whose both ends are lost and that nothing refers to are freed -/
def gc (s : Sys) : Sys :=
  let rec go : Nat → List (Option Link) → List (Option Link)
    | _, [] => []
    | i, none :: t => none :: go (i + 1) t
    | i, some k :: t =>
      (if k.a.status = .lost ∧ k.b.status = .lost ∧ !eqRefs s.a i ∧ !eqRefs s.b i then none else some k) :: go (i + 1) t
  { s with links := trimNone (go 0 s.links) }

def bothOpen (k : Link) : Bool := k.a.status = .open_ && k.b.status = .open_

/-- both ends open and delivering in both directions -/
def healthy (k : Link) : Bool := bothOpen k && !k.sa && !k.sb

def freshHints (ms : List Msg) : Nat := (ms.filter (· == .hints true)).length

/-- can side `x` still get its half of a relay connection of the newest generation in place?  It waits at the
    relay already, or the dial is scheduled, or the relay hint of the peer's current generation is on its way -/
def relayLeg (s : Sys) (x : SideId) : Bool :=
  let sd := s.side x
  (match sd.rhalf with | some e => e.owner = none && e.status = .open_ | none => false) ||
  sd.att.contains .relay || sd.fly.contains .relay ||
  (s.chanFrom x.other).contains (.rhints true) || sd.pend.contains (.rhints true)

/-- candidate opportunities of the newest generation other than link `l`: healthy links between the
    two current connectors, scheduled connections to a current listener and fresh hints on their way
    (hints count from the moment they are SENT: an implementation that discards hints it was sent in
    time loses candidates by itself) — the last two only for a side whose dialling gets through -/
def otherCandidates (s : Sys) (l : Nat) : Nat :=
  let rec cnt : Nat → List (Option Link) → Nat
    | _, [] => 0
    | i, none :: t => cnt (i + 1) t
    | i, some k :: t => (if i ≠ l ∧ healthy k ∧ k.a.owner = none ∧ k.b.owner = none then 1 else 0) + cnt (i + 1) t
  cnt 0 s.links
    + (if s.ra then ((s.a.att ++ s.a.fly).filter (· == .direct true)).length + freshHints s.ba + freshHints s.a.pend else 0)
    + (if s.rb then ((s.b.att ++ s.b.fly).filter (· == .direct true)).length + freshHints s.ab + freshHints s.b.pend else 0)
    + (if relayLeg s .A && relayLeg s .B then 1 else 0)

/-- may the network drop end `(x, l)` now?  Always, except for the LAST candidate of the newest
    generation (the property's proviso: "provided the network lets at least one connection attempt
    of the new generation complete") -/
def killOK (s : Sys) (l : Nat) : Bool :=
  match s.link? l with
  | none => false
  | some k =>
    let selectedByLeader := match s.roleSide .leader with
      | some ld => (k.end_ ld).dcp = .selected
      | none => false
    selectedByLeader || !healthy k || k.a.owner.isSome || k.b.owner.isSome || otherCandidates s l > 0

/-- is the operation enabled (the driver answers `skip` otherwise) -/
def enabled (s : Sys) : Event → Bool
  | .key x => !(s.side x).key
  | .vers x => (s.side x).key && !(s.side x).vers
  | .dilate x => !(s.side x).dil
  | .deliver x => (s.side x).vers && !(s.chanFrom x.other).isEmpty
  | .connect x => !(s.side x).att.isEmpty || !(s.side x).fly.isEmpty
  | .dial x => !(s.side x).att.isEmpty
  | .cut x =>
    -- some path must remain for the generations to come, and the last candidate of the generation in progress is spared
    s.reach x && (s.reach x.other || s.relay.isSome) &&
      (let s' : Sys := match x with | .A => { s with ra := false } | .B => { s with rb := false }
       otherCandidates s' 1000000 > 0 || otherCandidates s 1000000 = 0)
  | .turn1 x => !(s.side x).eq.isEmpty
  | .sigrec x => (s.side x).dil && (s.side x).role = some .leader && (s.side x).conn.isSome
  | .hs l =>
    match s.link? l with
    | some k => healthy k && !k.hs && (s.roleSide .leader).isSome && (s.roleSide .follower).isSome
    | none => false
  | .kcmf l =>
    match s.link? l, s.roleSide .leader, s.roleSide .follower with
    | some k, some ld, some fo => k.kf && (k.end_ ld).status = .open_ && !k.silent fo
    | _, _, _ => false
  | .kcml l =>
    match s.link? l, s.roleSide .leader, s.roleSide .follower with
    | some k, some ld, some fo => k.kl && (k.end_ fo).status = .open_ && !k.silent ld
    | _, _, _ => false
  | .lose x l =>
    match s.link? l with
    | some k => (k.end_ x).status ≠ .lost && killOK s l
    | none => false
  | .write x => (s.side x).dil && (s.side x).role.isSome
  | .tick x => (s.side x).timer
  | .silence x l =>
    match s.link? l with
    | some k => !k.silent x && killOK s l
    | none => false
  | .more x l =>
    -- the writer's own KCM precedes its records on the wire
    match s.link? l with
    | some k =>
      !(k.q x).isEmpty && (k.end_ x.other).status = .open_ && !k.silent x &&
        !(if (s.side x).role = some .leader then k.kl else k.kf)
    | none => false

/-- the effect of an enabled event (before `gc`) -/
def apply (s : Sys) : Event → Sys × Outcome
  | .key x => (s.modSide x (fun sd => { sd with key := true }), .ok)
  | .vers x =>
    -- Dilator.got_wormhole_versions: to the Manager (-> start()) if it exists, else kept pending
    let s := s.modSide x (fun sd => { sd with vers := true })
    if (s.side x).dil then
      match mgrInput FUEL x .start false s with
      | (s, none) => (s, .ok)
      | (s, some e) => (s, .exn e)
    else (s, .ok)
  | .dilate x =>
    let s := s.modSide x (fun sd => { sd with dil := true })
    let r : R := if (s.side x).vers then mgrInput FUEL x .start false s else (s, none)
    match andThen r (fun s => flushPending x ((s.side x).pend.length) s) with
    | (s, none) => (s, .ok)
    | (s, some e) => (s, .exn e)
  | .deliver x =>
    match s.chanFrom x.other with
    | [] => (s, .skip)
    | m :: rest =>
      let s := s.setChanFrom x.other rest
      match dilatorReceived x m s with
      | (s, none) => (s, .ok)
      | (s, some e) => (s, .exn e)
  | .cut x => ((match x with | .A => { s with ra := false } | .B => { s with rb := false }), .ok)
  | .dial x =>
    -- the deferLater of the oldest scheduled connection fires: `_connect` calls `ep.connect(f)`
    (match (s.side x).att with
     | [] => (s, .skip)
     | a :: rest => (s.modSide x (fun sd => { sd with att := rest, fly := sd.fly ++ [a] }), .ok))
  | .connect x =>
    -- the oldest attempt in flight is answered (if none is in flight the oldest scheduled one is dialled first)
    let s := match (s.side x).fly, (s.side x).att with
      | [], a :: rest => s.modSide x (fun sd => { sd with att := rest, fly := [a] })
      | _, _ => s
    match (s.side x).fly with
    | [] => (s, .skip)
    | .direct tgt :: rest =>
      let s := s.modSide x (fun sd => { sd with fly := rest })
      if tgt && (s.side x.other).lst && s.reach x then
        ({ s with links := placeLink s.links { dialer := x } }, .ok)
      else (s, .ok)                                   -- ConnectionRefusedError, trapped
    | .relay :: rest =>
      -- the relay is reachable; it joins this connection with the peer's if one is waiting there, else this one waits
      let s := s.modSide x (fun sd => { sd with fly := rest })
      (match (s.side x.other).rhalf with
       | some e =>
         let s := s.modSide x.other (fun p => { p with rhalf := none })
         let k : Link := { dialer := x, relay := true }
         ({ s with links := placeLink s.links ((k.setEnd x {}).setEnd x.other e) }, .ok)
       | none => (s.modSide x (fun sd => { sd with rhalf := some {} }), .ok))
  | .turn1 x =>
    match (s.side x).eq with
    | [] => (s, .skip)
    | c :: rest =>
      let s := s.modSide x (fun sd => { sd with eq := rest })
      let r : R := match c with
        | .accept l =>
          match s.link? l with
          | some k => conInput FUEL x (k.end_ x).owner .accept l false s
          | none => (s, none)
        | .lostcb _ => connectionLost x s
      match r with
      | (s, none) => (s, .ok)
      | (s, some e) => (s, .logged e)
  | .sigrec x =>
    match (s.side x).conn with
    | some l => (s.modEnd x l loseConnection, .ok)
    | none => (s, .ok)
  | .hs l =>
    match s.link? l with
    | some k => (s.setLink l { k with hs := true, kf := true }, .ok)
    | none => (s, .skip)
  | .kcmf l =>
    match s.link? l, s.roleSide .leader with
    | some k, some ld =>
      let s := s.setLink l { k with kf := false }
      (match dcpGotKcm ld l s with
       | (s, none) => (s, .ok)
       | (s, some e) => (s, .exn e))
    | _, _ => (s, .skip)
  | .kcml l =>
    match s.link? l, s.roleSide .follower with
    | some k, some fo =>
      let s := s.setLink l { k with kl := false }
      (match dcpGotKcm fo l s with
       | (s, none) => (s, .ok)
       | (s, some e) => (s, .exn e))
    | _, _ => (s, .skip)
  | .lose x l =>
    match s.link? l with
    | some k =>
      let e := k.end_ x
      let s := s.modEnd x l (fun e => { e with status := .lost })
      -- connectionLost -> _disconnected.fire(self): the manager's callback exists iff set_manager ran
      let s := if e.dcp = .selected then s.modSide x (fun sd => { sd with eq := sd.eq ++ [.lostcb l] }) else s
      (s, .ok)
    | none => (s, .skip)
  | .write x =>
    -- Manager.send_open -> _queue_and_send: Outbound.build_record, queue_and_send_record
    let n := (s.side x).nseq
    let s := s.modSide x (fun sd => { sd with nseq := n + 1, oq := sd.oq ++ [n] })
    (match sendIfConnected x (.open_ n) s with
     | (s, none) => (s, .ok)
     | (s, some e) => (s, .exn e))
  | .tick x =>
    -- timer_expired: `self._timer = None; self._traffic.interval_elapsed()`
    let s := s.modSide x (fun sd => { sd with timer := false })
    (match ttInput x .interval_elapsed s with
     | (s, none) => (s, .ok)
     | (s, some e) => (s, .exn e))
  | .silence x l =>
    match s.link? l with
    | some k => (s.setLink l (match x with | .A => { k with sa := true } | .B => { k with sb := true }), .ok)
    | none => (s, .skip)
  | .more x l =>
    match s.link? l with
    | some k =>
      (match k.q x with
       | [] => (s, .skip)
       | r :: rest =>
         let s := s.setLink l (k.setQ x rest)
         match dcpGotRecord x.other l r s with
         | (s, none) => (s, .ok)
         | (s, some e) => (s, .exn e))
    | none => (s, .skip)

def step (s : Sys) (e : Event) : Sys × Outcome :=
  if enabled s e then
    let (s', oc) := apply s e
    (gc s', oc)
  else (s, .skip)

/-! ## the finite abstractions: the same `step`, a bounded environment

`absK`: at most 2 links at a time, every network, both side orders; no application records, no ping-timer
expiry, no silent loss.  `absS`: at most 1 link at a time, every network (A leads), PLUS silent loss of either
direction of the link, the leader's ping interval timer (`tick`), Ping/Pong/Ack on the wire and one application
record per side that stays queued until acked and is re-sent by `Outbound.use_connection` on every new connection. -/

structure Abs where
  K : Nat               -- link slots
  W : Nat               -- application records with a seqnum, per side
  ext : Bool            -- silent loss, ping timer, records
  split : Nat := 2      -- which connection attempts may stay in flight (`dial` separately from `connect`): 2 all, 1 only those to the relay, 0 none
  inits : List Sys

def enabledP (p : Abs) (s : Sys) (e : Event) : Bool :=
  enabled s e &&
  (match e with
   | .connect x =>
     -- a connection that would succeed needs a free slot among the K
     (match (s.side x).fly ++ (s.side x).att with
      | .direct tgt :: _ => !(tgt && (s.side x.other).lst && s.reach x) || firstFree s.links < p.K
      | .relay :: _ => (s.side x.other).rhalf.isNone || firstFree s.links < p.K
      | [] => false)
   | .cut _ => false       -- a network that changes during the run is left to the differential runs
   | .dial x => p.split = 2 || (p.split = 1 && (s.side x).att.head? = some .relay)
   | .hs l | .kcmf l | .kcml l | .lose _ l => l < p.K
   | .write x => p.ext && (s.side x).nseq < p.W
   | .tick _ => p.ext
   | .silence _ l | .more _ l => p.ext && l < p.K
   | _ => true)

def sideEvents : List Event :=
  [.key .A, .key .B, .vers .A, .vers .B, .dilate .A, .dilate .B, .deliver .A, .deliver .B,
   .connect .A, .connect .B, .dial .A, .dial .B, .turn1 .A, .turn1 .B, .sigrec .A, .sigrec .B,
   .write .A, .write .B, .tick .A, .tick .B]

def linkEvents (l : Nat) : List Event :=
  [.hs l, .kcmf l, .kcml l, .lose .A l, .lose .B l, .silence .A l, .silence .B l, .more .A l, .more .B l]

def allEventsP (p : Abs) : List Event := sideEvents ++ (List.range p.K).flatMap linkEvents

/-- both orders of the side strings × every network in which at least one direction of dialling works -/
def absK : Abs :=
  { K := 2, W := 0, ext := false,
    inits := [{ cmp := .gt }, { cmp := .lt },
              { cmp := .gt, rb := false }, { cmp := .lt, rb := false },
              { cmp := .gt, ra := false }, { cmp := .lt, ra := false }] }

def absS : Abs :=
  { K := 1, W := 1, ext := true,
    inits := [{ cmp := .gt }, { cmp := .gt, rb := false }, { cmp := .gt, ra := false }] }

/-- the transit relay: one side is configured with it (A leads; either side may be the configured one); direct
    dialling works in NO direction, or only for the side that does NOT have the relay; at most 2 links at a time;
    the attempts to reach the relay may stay in flight (`dial` / `connect` apart); no records / timer / silent loss -/
def absR : Abs :=
  { K := 2, W := 0, ext := false, split := 1,
    inits := [{ cmp := .gt, relay := some .A, ra := false, rb := false },
              { cmp := .gt, relay := some .B, ra := false, rb := false },
              { cmp := .gt, relay := some .B, rb := false }, { cmp := .gt, relay := some .A, ra := false }] }

def K : Nat := absK.K
def enabledK : Sys → Event → Bool := enabledP absK
def allEvents : List Event := allEventsP absK
def inits : List Sys := absK.inits

def succsP (p : Abs) (s : Sys) : List Sys :=
  (allEventsP p).filterMap (fun e => if enabledP p s e then some (step s e).1 else none)

/-- the search gives up (answer `false`) beyond this many states: a changed table can make the
    abstraction unbounded, and a certificate must fail fast then -/
def STATE_LIMIT : Nat := 600000

def bfs (p : Abs) : Nat → List Sys → Std.HashSet Sys → Std.HashSet Sys × Bool
  | 0, frontier, seen => (seen, frontier.isEmpty)
  | _ + 1, [], seen => (seen, true)
  | fuel + 1, frontier, seen =>
    if seen.size > STATE_LIMIT then (seen, false) else
    let (next, seen') := frontier.foldl (fun (acc : List Sys × Std.HashSet Sys) s =>
      (succsP p s).foldl (fun (acc : List Sys × Std.HashSet Sys) t =>
        if acc.2.contains t then acc else (t :: acc.1, acc.2.insert t)) acc) ([], seen)
    bfs p fuel next seen'

def reachableP (p : Abs) (fuel : Nat) : Std.HashSet Sys × Bool :=
  bfs p fuel p.inits (p.inits.foldl (fun h s => h.insert s) {})

def reachable (fuel : Nat) : Std.HashSet Sys × Bool := reachableP absK fuel

/-! ## what is certified -/

/-- the two classified undeclared inputs of the current code -/
def isStoppedAccept : Outcome → Bool
  | .logged (.ntConnector .stopped .accept) => true
  | _ => false

def isStoppedCandidate : Outcome → Bool
  | .exn (.ntConnector .stopped .add_candidate) => true
  | _ => false

def isFailure : Outcome → Bool
  | .exn _ => true
  | .logged _ => true
  | _ => false

/-- per side: every live selected protocol is `Manager._connection`, which is a selected protocol;
    CONNECTED has a connection, a connection is held only in CONNECTED / ABANDONING -/
def oneSelectedSide (s : Sys) (x : SideId) : Bool :=
  let sd := s.side x
  let rec chk : Nat → List (Option Link) → Bool
    | _, [] => true
    | i, none :: t => chk (i + 1) t
    | i, some k :: t =>
      (!((k.end_ x).dcp = .selected && (k.end_ x).status ≠ .lost) || sd.conn = some i) && chk (i + 1) t
  chk 0 s.links &&
  (match sd.conn with
   | none => sd.mgr ≠ .CONNECTED
   | some l =>
     (match s.link? l with
      | some k => (k.end_ x).dcp = .selected
      | none => false) && (sd.mgr = .CONNECTED || sd.mgr = .ABANDONING))

/-- a follower end has left `unselected` (or the leader's KCM is on its way) only on a link whose
    leader end ran `select` — which only `select_and_stop_remaining` calls -/
def followerConfirmed (s : Sys) : Bool :=
  match s.roleSide .leader, s.roleSide .follower with
  | some ld, some fo =>
    s.links.all (fun o => match o with
      | none => true
      | some k => !((k.end_ fo).dcp ≠ .unselected || k.kl) || (k.end_ ld).dcp = .selected)
  | _, _ => s.links.all (fun o => o.isNone)

def rolesOK (s : Sys) : Bool :=
  match s.a.role, s.b.role with
  | some ra, some rb => ra ≠ rb && (ra = .leader) = (s.cmp = .gt)
  | _, _ => true

def inv (s : Sys) : Bool :=
  oneSelectedSide s .A && oneSelectedSide s .B && followerConfirmed s && rolesOK s && !s.a.stale && !s.b.stale

/-- safety of one step: no failure other than the two classified ones, and the invariant after it -/
def safeStep (s : Sys) (e : Event) : Bool :=
  let (s', oc) := step s e
  (!isFailure oc || isStoppedAccept oc || isStoppedCandidate oc) && inv s'

/-- both Managers CONNECTED on the two open, selected ends of one link -/
def goal (s : Sys) : Bool :=
  s.a.mgr = .CONNECTED && s.b.mgr = .CONNECTED &&
  (match s.a.conn, s.b.conn with
   | some l, some l' =>
     l = l' && (match s.link? l with
       | some k => healthy k && k.a.dcp = .selected && k.b.dcp = .selected
       | none => false)
   | _, _ => false)

/-- what a cooperative environment does: the applications call dilate(), the mailbox delivers, the
    reactor runs, connections are attempted, bytes flow, and a link one of whose ends is gone (or
    that belongs to an old generation) dies completely.  It does not break healthy links. -/
def coop (s : Sys) : Event → Bool
  | .sigrec _ => false
  | .lose _ l =>
    match s.link? l with
    | some k => !healthy k || k.a.owner.isSome || k.b.owner.isSome
    | none => false
  | .write _ | .silence _ _ => false
  | .tick x =>
    -- a ping interval may elapse unanswered only on a connection that no longer delivers
    match (s.side x).conn with
    | some l => (match s.link? l with | some k => !healthy k | none => false)
    | none => false
  | _ => true

/-! ## concrete layer of the driver: dilate-N numbers and the Boss' strict-order buffer -/

/-- `Boss._next_rx_dilate_seqnum` and the KEYS of `Boss._rx_dilate_seqnums` (the plaintext stored under
    key `n` is whatever arrived as `dilate-n`; the model identifies it with `n`) -/
structure Boss where
  next : Nat := 0
  held : List Nat := []
  deriving Repr, Inhabited, DecidableEq

/-- `while self._next_rx_dilate_seqnum in self._rx_dilate_seqnums: pop; D.received_dilate(m); next += 1`
    (the list collects what is handed to the Dilator, in order) -/
def Boss.drain : Nat → Boss → List Nat → Boss × List Nat
  | 0, b, out => (b, out)
  | fuel + 1, b, out =>
    if b.held.contains b.next then
      Boss.drain fuel { next := b.next + 1, held := b.held.erase b.next } (out ++ [b.next])
    else (b, out)

/-- `Boss.D_received_dilate(seqnum, plaintext)`: `dict[seqnum] = plaintext`, then the loop -/
def Boss.recv (b : Boss) (n : Nat) : Boss × List Nat :=
  Boss.drain (b.held.length + 2) { b with held := n :: b.held.erase n } []

structure RxBuf where
  boss : Boss := {}
  off : Nat := 0             -- messages popped whose delivery raised (`next` was not advanced)
  deriving Repr, Inhabited

structure Conc where
  sys : Sys := {}
  ra : RxBuf := {}
  rb : RxBuf := {}
  deriving Repr, Inhabited

def Conc.rx (c : Conc) : SideId → RxBuf
  | .A => c.ra
  | .B => c.rb

def Conc.setRx (c : Conc) (x : SideId) (r : RxBuf) : Conc :=
  match x with
  | .A => { c with ra := r }
  | .B => { c with rb := r }

def outcomeStr : Outcome → String
  | .ok => "ok"
  | .skip => "skip"
  | .exn e => "exn:" ++ e.name
  | .logged e => "logged:" ++ e.name

/-- hand the drained messages to the Dilator one by one; a raising delivery leaves the loop: the
    message is gone, `next` is not advanced, the rest stays in the dict -/
def deliverAll (x : SideId) : List Nat → Nat → Sys → Sys × Nat × Option Exn
  | [], k, s => (s, k, none)
  | _ :: rest, k, s =>
    match step s (.deliver x) with
    | (s', .exn e) => (s', k, some e)
    | (s', _) => deliverAll x rest (k + 1) s'

def arrive (c : Conc) (x : SideId) (n : Nat) : Conc × Outcome :=
  let r := c.rx x
  let ch := c.sys.chanFrom x.other
  let base := r.boss.next + r.off
  if !(c.sys.side x).vers || n < base || n ≥ base + ch.length || r.boss.held.contains n then (c, .skip)
  else if r.off > 0 then (c.setRx x { r with boss := { r.boss with held := n :: r.boss.held } }, .ok)
  else
    let (b', outs) := r.boss.recv n
    match deliverAll x outs 0 c.sys with
    | (s', _, none) => ({ c with sys := s' }.setRx x { r with boss := b' }, .ok)
    | (s', k, some e) =>
      ({ c with sys := s' }.setRx x { boss := { next := r.boss.next + k, held := b'.held ++ outs.drop (k + 1) }, off := 1 }, .exn e)

/-- one `EventualQueue._turn`: the calls queued now, each logged-and-swallowed on failure -/
def turn (x : SideId) : Nat → Sys → List Exn → Sys × List Exn
  | 0, s, acc => (s, acc.reverse)
  | n + 1, s, acc =>
    match step s (.turn1 x) with
    | (s', .logged e) => turn x n s' (e :: acc)
    | (s', _) => turn x n s' acc

def b01 (b : Bool) : String := if b then "1" else "0"

def insertSorted (n : Nat) : List Nat → List Nat
  | [] => [n]
  | h :: t => if n ≤ h then n :: h :: t else h :: insertSorted n t

def sortNat (l : List Nat) : List Nat := l.foldr insertSorted []

def roleStr : Option Role → String
  | none => "-"
  | some .leader => "L"
  | some .follower => "F"

def eqStr : EqCall → String
  | .accept l => "a" ++ toString l
  | .lostcb l => "l" ++ toString l

def attStr : Att → String
  | .direct f => b01 f
  | .relay => "R"

def showSide (c : Conc) (x : SideId) : String :=
  let sd := c.sys.side x
  let r := c.rx x
  let base := s!"dil={b01 sd.dil} key={b01 sd.key} vers={b01 sd.vers} rx={r.boss.next} buf=[{",".intercalate ((sortNat r.boss.held).map toString)}] pend={sd.pend.length}"
  if !sd.dil then base else
  let p := c.rx x.other
  let gen := p.boss.next + p.off + (c.sys.chanFrom x).length
  let con := match sd.con with | none => "-" | some st => Connector.State.name st
  let conn := match sd.conn with | none => "-" | some l => toString l
  let tt := match sd.tt with | none => "-" | some st => TrafficTimer.State.name st
  base ++ s!" mgr={Manager.State.name sd.mgr} role={roleStr sd.role} con={con} lst={b01 sd.lst} stale={b01 sd.stale} att=[{",".intercalate (sd.att.map attStr)}] fly=[{",".intercalate (sd.fly.map attStr)}] rh={match sd.rhalf with | none => "-" | some e => (match e.owner with | none => "cur" | some st => "old-" ++ Connector.State.name st)} conn={conn} eq=[{",".intercalate (sd.eq.map eqStr)}] tt={tt} gen={gen} tm={b01 sd.timer} oq=[{",".intercalate (sd.oq.map toString)}] rxh={sd.rxh}"

def msgStr : Msg → String
  | .please => "please"
  | .hints f => "hints" ++ b01 f
  | .rhints f => "rhints" ++ b01 f
  | .reconnect => "reconnect"
  | .reconnecting => "reconnecting"

/-- messages sent by `x` that have not yet ARRIVED at the peer's Boss -/
def showChan (c : Conc) (x : SideId) : String :=
  let r := c.rx x.other
  let rec go : Nat → List Msg → List String
    | _, [] => []
    | n, m :: t => (if r.boss.held.contains n then [] else [s!"{n}:{msgStr m}"]) ++ go (n + 1) t
  ",".intercalate (go (r.boss.next + r.off) (c.sys.chanFrom x))

def statusStr : Status → String
  | .open_ => "open"
  | .closing => "closing"
  | .lost => "lost"

def recStr : Rec → String
  | .open_ n => "o" ++ toString n
  | .ack n => "a" ++ toString n
  | .ping => "pi"
  | .pong => "po"

def endStr (e : End) : String :=
  let o := match e.owner with | none => "cur" | some st => "old-" ++ Connector.State.name st
  s!"{o}/{DCP.State.name e.dcp}/{statusStr e.status}/{e.inq.length}"

def showLinks (s : Sys) : String :=
  let rec go : Nat → List (Option Link) → List String
    | _, [] => []
    | i, none :: t => s!"{i}:free" :: go (i + 1) t
    | i, some k :: t =>
      s!"{i}:dial={if k.relay then "R" else k.dialer.name} hs={b01 k.hs} kf={b01 k.kf} kl={b01 k.kl} sil={if k.sa || k.sb then (if k.sa then "A" else "") ++ (if k.sb then "B" else "") else "-"} qa=[{",".intercalate (k.qa.map recStr)}] qb=[{",".intercalate (k.qb.map recStr)}] A:{endStr k.a} B:{endStr k.b}" :: go (i + 1) t
  " | ".intercalate (go 0 s.links)

def showConc (c : Conc) : String :=
  "A{" ++ showSide c .A ++ "} B{" ++ showSide c .B ++ "} ab=[" ++ showChan c .A ++ "] ba=[" ++ showChan c .B ++ "] links=[" ++ showLinks c.sys ++ "]"

def side? : String → Option SideId
  | "A" => some .A
  | "B" => some .B
  | _ => none

def sysEvent? : List String → Option Event
  | ["key", x] => (side? x).map .key
  | ["vers", x] => (side? x).map .vers
  | ["dilate", x] => (side? x).map .dilate
  | ["connect", x] => (side? x).map .connect
  | ["dial", x] => (side? x).map .dial
  | ["cut", x] => (side? x).map .cut
  | ["sigrec", x] => (side? x).map .sigrec
  | ["write", x] => (side? x).map .write
  | ["tick", x] => (side? x).map .tick
  | ["silence", x, l] => do
    let x ← side? x
    let l ← l.toNat?
    pure (.silence x l)
  | ["more", x, l] => do
    let x ← side? x
    let l ← l.toNat?
    pure (.more x l)
  | ["hs", l] => l.toNat?.map .hs
  | ["kcmf", l] => l.toNat?.map .kcmf
  | ["kcml", l] => l.toNat?.map .kcml
  | ["lose", x, l] => do
    let x ← side? x
    let l ← l.toNat?
    pure (.lose x l)
  | _ => none

/-- Python: `a > b` / `b > a` on `str` is code-point lexicographic, as Lean's `<` on `String` -/
def cmpSides (a b : String) : Ordering :=
  if b < a then .gt else if a < b then .lt else .eq

def stepLine (c : Conc) (line : String) : Conc × String :=
  let fin (c : Conc) (oc : String) := (c, oc ++ " | " ++ showConc c)
  match tokens line with
  | ["reset"] => ({}, "ok")
  | ["init", ha, hb] =>
    match strOfHex? ha, strOfHex? hb with
    | some a, some b => fin { sys := { cmp := cmpSides a b } } "ok"
    | _, _ => (c, "bad-op")
  | ["init", ha, hb, ra, rb] =>
    match strOfHex? ha, strOfHex? hb with
    | some a, some b => fin { sys := { cmp := cmpSides a b, ra := ra == "1", rb := rb == "1" } } "ok"
    | _, _ => (c, "bad-op")
  | ["init", ha, hb, ra, rb, rl] =>
    match strOfHex? ha, strOfHex? hb with
    | some a, some b => fin { sys := { cmp := cmpSides a b, ra := ra == "1", rb := rb == "1", relay := side? rl } } "ok"
    | _, _ => (c, "bad-op")
  | ["arrive", x, n] =>
    match side? x, n.toNat? with
    | some x, some n =>
      let (c', oc) := arrive c x n
      fin c' (outcomeStr oc)
    | _, _ => (c, "bad-op")
  | ["turn", x] =>
    match side? x with
    | some x =>
      let (s', errs) := turn x (c.sys.side x).eq.length c.sys []
      fin { c with sys := s' } (if errs.isEmpty then "ok" else "logged:" ++ ",".intercalate (errs.map Exn.name))
    | none => (c, "bad-op")
  | ["hspart", l] =>
    -- some, not all, of the prologue/handshake bytes of link l are delivered: no control effect
    match l.toNat? with
    | some l => fin c (if enabled c.sys (.hs l) then "ok" else "skip")
    | none => (c, "bad-op")
  | ts =>
    match sysEvent? ts with
    | some e =>
      let (s', oc) := step c.sys e
      fin { c with sys := s' } (outcomeStr oc)
    | none => (c, "bad-op")

def driver (lines : List String) : List String := runLines stepLine {} lines

end WV.C11
