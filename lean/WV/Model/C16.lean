import WV.Model.Basic
import WV.Gen.T_TrafficTimer
import WV.Gen.T_Manager
import WV.Gen.Flags
import WV.Gen.Skel

/-!
C16 — the Leader's connection monitor.

Model of `src/wormhole/_dilation/manager.py`: class `TrafficTimer` (the *generated* Automat
table, `WV.Gen.TrafficTimer.table`), and of `Manager`: `_send_ping_reset_timer`, its nested
`timer_expired` / `got_pong`, `_signal_reconnect`, `send_ping`, `handle_pong`,
`connector_connection_made`, `connector_connection_lost`, `_stop_using_connection`,
`abandon_connection`, `stop` and the rows of the *generated* `Manager` table that decide when
those run.  `Outbound.send_if_connected / use_connection / stop_using_connection` are modelled
by the one field `outConn` (a `Ping` reaches the wire only if `Outbound._connection` is set).

Time is `Nat` ticks.  `tick` advances the clock by one tick and fires the interval timer when
it is due (`task.Clock.advance` / a real reactor: a `DelayedCall` runs once `now ≥ deadline`).
Every other operation is instantaneous, so a trace (`List Op`) is an arbitrary monotone
timing of the events.  The ping interval `T` is a parameter (`Cfg.T`, in ticks).

Python exceptions are values: a step returns the (partially updated) state and the exception.

The random source is part of the environment: the id of every keep-alive Ping is `os.urandom(4)`.  An id is an
opaque token here — the model only ever compares two ids for equality (`hasId`: the dict lookups in `send_ping` and
`handle_pong`) — and the environment may fix what the next draws return (`Op.rnd`, any sequence, repeats included);
what it has not fixed is a value never returned before.  Nothing assumes that draws differ: a draw equal to an id
still in `_pings_outstanding` runs into `send_ping`'s assert (`Err.assertionError`), as in the code.
-/
namespace WV.C16
open WV WV.Gen


abbrev Table := TrafficTimer.State → TrafficTimer.Input → Option (TrafficTimer.State × List TrafficTimer.Output)

structure Cfg where
  /-- `Manager._ping_interval`, in ticks -/
  T : Nat
  /-- the TrafficTimer transition table the run uses -/
  tbl : Table

/-- the configuration the driver executes and the theorems are about: the table generated from
    the working tree -/
def Cfg.real (T : Nat) : Cfg := { T := T, tbl := TrafficTimer.table }

inductive Err where
  | noTransition     -- Automat: input not declared in this state (raised before any change)
  | attributeError   -- a method call on `None`
  | assertionError   -- `send_ping`: `assert ping_id not in self._pings_outstanding, "Duplicate ping_id"`
  deriving DecidableEq, Repr

def Err.name : Err → String
  | .noTransition => "NoTransition" | .attributeError => "AttributeError" | .assertionError => "AssertionError"

/-- one entry of `Manager._pings_outstanding` (insertion-ordered dict).  A ping id is an OPAQUE token: the
    model never looks inside the 4 bytes, it only compares ids for equality (dict key).  `id` is the
    first-occurrence index of the `os.urandom(4)` value over the whole run, so two draws have the same `id`
    iff the random source returned the same 4 bytes twice.  Freshness of a draw is NOT assumed anywhere
    in this file (see `pingId`, `freshNext`).  `wire` = the connection whose
    `send_record` got the `Ping`, `none` if `Outbound` had no connection at that moment -/
structure PingRec where
  id : Nat
  sent : Nat
  wire : Option Nat
  deriving DecidableEq, Repr

structure St where
  now : Nat := 0
  mgr : Manager.State := Manager.init
  /-- `_my_role`: `some true` = LEADER, `some false` = FOLLOWER, `none` before `rx_PLEASE` -/
  role : Option Bool := none
  /-- `_traffic` (`none` = attribute still `None`) and the TrafficTimer's Automat state -/
  traffic : Option TrafficTimer.State := none
  /-- `_timer`: deadline of the pending `DelayedCall` -/
  timer : Option Nat := none
  /-- `Manager._connection` (connections are numbered in the order they are offered) -/
  conn : Option Nat := none
  /-- `Outbound._connection` -/
  outConn : Option Nat := none
  /-- `Outbound._paused`: the transport of the connection called `pauseProducing()` (send buffer
      full); also set while there is no connection -/
  outPaused : Bool := true
  /-- `Inbound._paused_subchannels` (subchannels numbered by the harness, kept sorted): consumers that
      have asked us to stop reading -/
  inPaused : List Nat := []
  /-- the connection in use has been told `pauseProducing()` and not `resumeProducing()` since: its
      transport delivers nothing (no Pong reaches `got_record`) -/
  readPaused : Bool := false
  pings : List PingRec := []
  /-- the number of distinct 4-byte values drawn so far = the index a value never drawn before will get -/
  nextPing : Nat := 0
  /-- the random source: what the next calls of `os.urandom(4)` will return (canonical indices), as far as
      the environment has fixed it (`Op.rnd`; any sequence, repeats included).  Once it is used up a draw
      returns a value that was never drawn before (`nextPing`). -/
  draws : List Nat := []
  nextConn : Nat := 0
  -- observation log / ghost fields (never read by the modelled code)
  /-- `(conn, ping index, time)` of every `Ping` handed to a connection's `send_record` -/
  wireLog : List (Nat × Nat × Nat) := []
  /-- `(conn, time)` of every `disconnect()` made by `_signal_reconnect` -/
  drops : List (Nat × Nat) := []
  /-- `(conn, time)` of every `disconnect()` made by `abandon_connection` -/
  abandons : List (Nat × Nat) := []
  /-- time of the most recent `send_ping` -/
  lastPing : Nat := 0
  /-- time the connection now in use was handed to `connector_connection_made` -/
  madeAt : Nat := 0
  /-- `_signal_reconnect` has asked the connection now in use to disconnect -/
  dropped : Bool := false
  /-- `Manager.stop()` has been called -/
  stopCalled : Bool := false
  deriving DecidableEq, Repr

abbrev Res := St × Option Err

/-- sequencing of Python statements: an exception skips the rest, the state reached stays -/
def Res.andThen (r : Res) (f : St → Res) : Res :=
  match r with
  | (s, none) => f s
  | (s, some e) => (s, some e)

/-! ## `Manager.send_ping`, `_send_ping_reset_timer`, `_signal_reconnect` -/

/-- `Outbound.send_if_connected(r)` for the un-queued records (Ping/Pong/Ack): the connection
    whose `send_record` gets `r`.  The guard is the one the translator found in the source:
    exactly `if self._connection:` (`Flags.send_if_connected_ignores_pause`) — a paused Outbound
    still writes Pings — or anything else, read as "and not paused". -/
def sendIfConnected (s : St) : Option Nat :=
  if Flags.send_if_connected_ignores_pause then s.outConn
  else if s.outPaused then none else s.outConn

/-! ### the random source

`_send_ping_reset_timer` draws the id of every keep-alive Ping with `os.urandom(4)`.  Nothing makes two draws
differ, and `send_ping` *asserts* that the id is not the key of a ping still outstanding — an unanswered ping is
never retired from `_pings_outstanding`, and the Ping generated by `connector_connection_made` is never even
written (`wire = none`), so every generation leaves at least one entry behind for good. -/

/-- what `os.urandom(4)` returns, given what the environment has fixed (`draws`) and the number of distinct
    values drawn so far (`next`, the index of a value never drawn before) -/
def drawOf (draws : List Nat) (next : Nat) : Nat :=
  match draws with
  | [] => next
  | d :: _ => d

/-- `id in pings` (keys of `_pings_outstanding`) -/
def hasId (pings : List PingRec) (id : Nat) : Bool := pings.any (fun p => p.id == id)

/-- the value the next `os.urandom(4)` returns -/
def pingId (s : St) : Nat := drawOf s.draws s.nextPing

/-- the random source after that draw -/
def afterDraw (s : St) : St :=
  { s with draws := s.draws.tail, nextPing := max s.nextPing (pingId s + 1) }

/-- `ping_id in self._pings_outstanding` -/
def outstanding (s : St) (id : Nat) : Bool := hasId s.pings id

/-- THE assumption on the random source, where one is needed: the next 4 bytes drawn are not the id of a
    ping that is still outstanding.  (Equal to an id that has been answered, or drawn on another
    connection and answered, is fine.) -/
def freshNext (s : St) : Bool := !outstanding s (pingId s)

/-- `send_ping(os.urandom(4), got_pong)`: draws the id, asserts it is not outstanding (`AssertionError`
    before anything is registered or written), registers the ping, `send_if_connected(Ping(id))` -/
def sendPing (s0 : St) : Res :=
  let id := pingId s0
  let s := afterDraw s0
  -- assert ping_id not in self._pings_outstanding, "Duplicate ping_id"
  if outstanding s id then (s, some .assertionError)
  else
  ({ s with
    pings := s.pings ++ [{ id := id, sent := s.now, wire := sendIfConnected s }],
    lastPing := s.now,
    wireLog := match sendIfConnected s with
      | some c => s.wireLog ++ [(c, id, s.now)]
      | none => s.wireLog }, none)

/-- `_send_ping_reset_timer`: ping, then `callLater(interval)` if there is no timer, else the
    branch the translator found in the source: `DelayedCall.delay(interval)` (deadline +=
    interval) or `.reset(interval)` (deadline := now + interval).  An exception out of `send_ping`
    leaves the timer as it was: not re-armed. -/
def sendPingResetTimer (cfg : Cfg) (s : St) : Res :=
  (sendPing s).andThen fun s1 =>
  match s1.timer with
  | none => ({ s1 with timer := some (s1.now + cfg.T) }, none)
  | some d =>
    if Flags.ping_timer_uses_delay then ({ s1 with timer := some (d + cfg.T) }, none)
    else if Flags.ping_timer_uses_reset then ({ s1 with timer := some (s1.now + cfg.T) }, none)
    else (s1, none)

/-- `_signal_reconnect`: `if self._connection: self._connection.disconnect()` -/
def signalReconnect (s : St) : St :=
  match s.conn with
  | some c => { s with drops := s.drops ++ [(c, s.now)], dropped := true }
  | none => s

/-! ## TrafficTimer: dispatch through the table (state first, then the outputs in order) -/

def ttOutputs (cfg : Cfg) : List TrafficTimer.Output → St → Res
  | [], s => (s, none)
  | .begin_timing :: r, s => (sendPingResetTimer cfg s).andThen (ttOutputs cfg r)
  | .signal_reconnect :: r, s => ttOutputs cfg r (signalReconnect s)

def ttInput (cfg : Cfg) (i : TrafficTimer.Input) (s : St) : Res :=
  match s.traffic with
  | none => (s, some .attributeError)
  | some st =>
    match cfg.tbl st i with
    | none => (s, some .noTransition)
    | some (st', outs) => ttOutputs cfg outs { s with traffic := some st' }

/-! ## the Manager machine: generated table; only the outputs that touch the monitor have a body -/

/-- `b` is the role `choose_role` derives from the PLEASE message (`my_side > their_side`) -/
def mgrOutput (b : Bool) (o : Manager.Output) (s : St) : Res :=
  match o with
  | .choose_role => ({ s with role := some b }, none)
  | .abandon_connection =>
    -- if self._timer is not None: self._timer.cancel(); self._timer = None
    let s1 := { s with timer := none }
    -- self._connection.disconnect()
    match s1.conn with
    | some c => ({ s1 with abandons := s1.abandons ++ [(c, s1.now)] }, none)
    | none => (s1, some .attributeError)
  | _ => (s, none)   -- mailbox messages, Connector start/stop, status: not part of the monitor

def mgrOutputs (b : Bool) : List Manager.Output → St → Res
  | [], s => (s, none)
  | o :: r, s => (mgrOutput b o s).andThen (mgrOutputs b r)

def mgrInput (b : Bool) (i : Manager.Input) (s : St) : Res :=
  match Manager.table s.mgr i with
  | none => (s, some .noTransition)
  | some (st', outs) => mgrOutputs b outs { s with mgr := st' }

/-! ## `Inbound`: flow control towards the connection (`Inbound._connection` is set and cleared together
    with `Manager._connection`) -/

def insertNat (k : Nat) : List Nat → List Nat
  | [] => [k]
  | x :: xs => if k < x then k :: x :: xs else if k = x then x :: xs else x :: insertNat k xs

/-- `Inbound.subchannel_pauseProducing(sc)` -/
def subPause (k : Nat) (s : St) : St :=
  let was := !s.inPaused.isEmpty
  let s1 := { s with inPaused := insertNat k s.inPaused }
  if s1.conn.isSome && !was then { s1 with readPaused := true } else s1

/-- `Inbound.subchannel_resumeProducing(sc)`; `subchannel_stopProducing(sc)` has the same body and
    `subchannel_closed(scid, sc)` ends in it: the subchannel leaves the paused set *whether or not there
    is a connection*, and the last one to leave resumes the connection if there is one -/
def subResume (k : Nat) (s : St) : St :=
  let was := !s.inPaused.isEmpty
  let s1 := { s with inPaused := s.inPaused.filter (fun x => x != k) }
  if s1.conn.isSome && was && s1.inPaused.isEmpty then { s1 with readPaused := false } else s1

/-! ## the Manager methods -/

/-- `connector_connection_made(c)` -/
def connMade (cfg : Cfg) (s0 : St) : Res :=
  let c := s0.nextConn
  let s := { s0 with nextConn := c + 1 }
  -- if self._my_role == LEADER: (create the TrafficTimer on first use); got_connection()
  let r1 : Res :=
    if s.role = some true then
      let s1 := if s.traffic.isNone then { s with traffic := some TrafficTimer.init } else s
      ttInput cfg .got_connection s1
    else (s, none)
  r1.andThen fun s2 =>
  -- self.connection_made()
  (mgrInput false .connection_made s2).andThen fun s3 =>
  -- self._connection = c; inbound.use_connection(c); outbound.use_connection(c) (→ resumeProducing)
  -- `Inbound.use_connection`: a connection that arrives while some consumer is still paused is paused at once
  ({ s3 with conn := some c, outConn := some c, outPaused := false, readPaused := !s3.inPaused.isEmpty,
             madeAt := s3.now, dropped := false }, none)

/-- `connector_connection_lost()` followed by `_stop_using_connection()` -/
def connLost (cfg : Cfg) (s : St) : Res :=
  -- if self._traffic is not None: self._traffic.lost_connection()
  let r1 : Res := if s.traffic.isSome then ttInput cfg .lost_connection s else (s, none)
  r1.andThen fun s1 =>
  -- _stop_using_connection: cancel the timer, forget the connection
  let s2 := { s1 with timer := none, conn := none, readPaused := false }
  -- outbound.stop_using_connection(): `self._connection.transport.unregisterProducer()`
  match s2.outConn with
  | none => (s2, some .attributeError)
  | some _ =>
    -- … `self._connection = None; self.pauseProducing()`
    let s3 := { s2 with outConn := none, outPaused := true }
    if s3.role = some true then mgrInput false .connection_lost_leader s3
    else mgrInput false .connection_lost_follower s3

/-- `got_record(Pong(id))` → `handle_pong` → `got_pong` → `traffic_seen` -/
def gotPong (cfg : Cfg) (id : Nat) (s : St) : Res :=
  if s.pings.any (fun p => p.id == id) then
    ttInput cfg .traffic_seen { s with pings := s.pings.filter (fun p => p.id != id) }
  else (s, none)   -- "Weird: pong for ping that isn't outstanding"

/-- the nested `timer_expired`: `self._timer = None; self._traffic.interval_elapsed()` -/
def timerExpired (cfg : Cfg) (s : St) : Res :=
  ttInput cfg .interval_elapsed { s with timer := none }

/-- one clock tick; the pending call runs when its time has come -/
def tick (cfg : Cfg) (s : St) : Res :=
  let s1 := { s with now := s.now + 1 }
  match s1.timer with
  | some d => if d ≤ s1.now then timerExpired cfg s1 else (s1, none)
  | none => (s1, none)

/-- a reactor stall: the clock jumps `n` ticks in one step (`Clock.advance(n)` / a reactor that was
    busy or suspended), and only then is the pending call run — late, at `now ≥ deadline`, with
    `reactor.seconds()` already showing the late time.  The call it schedules (`now + T`) is in
    the future, so at most one runs.  `stall 1 = tick`. -/
def stall (cfg : Cfg) (n : Nat) (s : St) : Res :=
  let s1 := { s with now := s.now + n }
  match s1.timer with
  | some d => if d ≤ s1.now then timerExpired cfg s1 else (s1, none)
  | none => (s1, none)

/-! ## operations and traces -/

inductive Op where
  | tick
  | start                    -- `Manager.start()`
  | please (leader : Bool)   -- `rx_PLEASE(msg)`; `leader` = (my_side > msg["side"])
  | made                     -- `connector_connection_made(fresh connection)`
  | lost                     -- `connector_connection_lost()`
  | stop                     -- `Manager.stop()`
  | reconnecting             -- `rx_RECONNECTING()`
  | reconnect                -- `rx_RECONNECT()`
  | pong (id : Nat)          -- `got_record(Pong(id))`
  | pause                    -- the connection's transport: `outbound.pauseProducing()`
  | resume                   -- the connection's transport: `outbound.resumeProducing()`
  | stall (n : Nat)          -- the clock jumps `n` ticks at once; a timer that fell due runs late
  | cpause (k : Nat)         -- the consumer of subchannel `k`: `inbound.subchannel_pauseProducing`
  | cresume (k : Nat)        -- … `subchannel_resumeProducing` / `subchannel_stopProducing` / `subchannel_closed`
  | rnd (ids : List Nat)     -- the environment fixes what the next `os.urandom(4)` calls return (any ids, repeats too)
  deriving DecidableEq, Repr

def step (cfg : Cfg) (s : St) : Op → Res
  | .tick => tick cfg s
  | .start => mgrInput false .start s
  | .please b => mgrInput b .rx_PLEASE s
  | .made => connMade cfg s
  | .lost => connLost cfg s
  | .stop => mgrInput false .k_stop { s with stopCalled := true }
  | .reconnecting => mgrInput false .rx_RECONNECTING s
  | .reconnect => mgrInput false .rx_RECONNECT s
  | .pong id => gotPong cfg id s
  | .pause => ({ s with outPaused := true }, none)
  | .resume => ({ s with outPaused := false }, none)
  | .stall n => stall cfg n s
  | .cpause k => (subPause k s, none)
  | .cresume k => (subResume k s, none)
  | .rnd ids => ({ s with draws := s.draws ++ ids }, none)

/-- run a trace; stops at the first exception -/
def run (cfg : Cfg) : St → List Op → Res
  | s, [] => (s, none)
  | s, o :: os => (step cfg s o).andThen (fun s' => run cfg s' os)

/-- `n` ticks (`clock.advance`).  An exception raised by the timer callback is logged by the
    reactor and the clock goes on; the first one is reported. -/
def advance (cfg : Cfg) : Nat → St → Res
  | 0, s => (s, none)
  | n + 1, s =>
    match tick cfg s with
    | (s1, e1) =>
      match advance cfg n s1 with
      | (s2, e2) => (s2, match e1 with | some e => some e | none => e2)

def init : St := {}

/-! ## vocabulary of the property statements -/

/-- states reached from `init` by operations that did not raise -/
inductive Reach (cfg : Cfg) : St → Prop where
  | init : Reach cfg init
  | step {s s' : St} {o : Op} : Reach cfg s → step cfg s o = (s', none) → Reach cfg s'

/-- does the operation move the clock (and so possibly run the timer)?  by how many ticks -/
def Op.clock : Op → Option Nat
  | .tick => some 1
  | .stall n => some n
  | _ => none

/-- "every ping is answered within one interval of actually being sent", checked at the instant
    before the clock moves by `n` ticks: if that step runs the timer (on time or late), no `Ping`
    that reached the connection now in use is still unanswered a full interval after the time it
    was really handed to the connection -/
def respOK (cfg : Cfg) (s : St) (n : Nat) : Bool :=
  match s.timer with
  | some d =>
    if d ≤ s.now + n then
      s.pings.all (fun p => p.wire != s.conn || decide (s.now + n < p.sent + cfg.T))
    else true
  | none => true

/-- the peer is responsive along a whole trace (ticks and stalls alike) -/
def Responsive (cfg : Cfg) : St → List Op → Bool
  | _, [] => true
  | s, o :: os =>
    (match o.clock with | some n => respOK cfg s n | none => true) && Responsive cfg (step cfg s o).1 os

/-- the operations the environment may legitimately perform in a state: the Connector offers a
    connection only while the Manager is CONNECTING, reports the loss of (and delivers records
    from) a connection only while one is in use, mailbox messages arrive only in the states
    that expect them, `stop()` is called once -/
def legal (s : St) : Op → Bool
  | .tick => true
  | .start => s.mgr == .WAITING
  | .please _ => s.mgr == .WANTING
  | .made => s.mgr == .CONNECTING
  | .lost => s.mgr == .CONNECTED || s.mgr == .STOPPING || (s.mgr == .ABANDONING && s.role != some true)
  | .stop => s.mgr != .STOPPING && s.mgr != .STOPPED
  | .reconnecting => s.mgr == .FLUSHING
  | .reconnect => s.mgr == .CONNECTED || s.mgr == .CONNECTING || s.mgr == .LONELY
  | .pong _ => s.conn.isSome && !s.readPaused     -- a read-paused transport delivers nothing
  | .pause => s.conn.isSome
  | .resume => s.conn.isSome
  | .stall _ => true
  | .cpause _ => true
  | .cresume _ => true
  | .rnd _ => true

/-! ## call skeletons the bodies above mirror (checked against `Gen.Skel` in `Props.C16`) -/

def expectedSkeleton : List (String × List (String × String)) :=
  [ ("Manager._send_ping_reset_timer",
      [("-", "os.urandom"), ("-", "self.send_ping"), ("if", "_reactor.callLater"),
       -- the branch `sendPingResetTimer` follows, as the translator found it
       ("else", if Flags.ping_timer_uses_delay then "_timer.delay"
                else if Flags.ping_timer_uses_reset then "_timer.reset" else "-")]),
    ("Manager._signal_reconnect", [("if", "_connection.disconnect")]),
    ("Manager._stop_using_connection",
      [("if", "_timer.cancel"), ("-", "_inbound.stop_using_connection"), ("-", "_outbound.stop_using_connection")]),
    ("Manager.abandon_connection", [("if", "_timer.cancel"), ("-", "_connection.disconnect")]),
    ("Manager.connector_connection_lost",
      [("if", "_traffic.lost_connection"), ("-", "self._stop_using_connection"),
       ("if", "self.connection_lost_leader"), ("else", "self.connection_lost_follower")]),
    ("Manager.connector_connection_made",
      [("if/if", "TrafficTimer"), ("if", "_traffic.got_connection"), ("-", "self.connection_made"),
       ("-", "_inbound.use_connection"), ("-", "_outbound.use_connection"), ("if", "_main_channel.fire")]),
    ("Manager.send_ping", [("-", "_reactor.seconds"), ("-", "Ping"), ("-", "_outbound.send_if_connected")]),
    ("Manager.handle_pong", [("else", "self._peer_saw_ping"), ("else/if", "_reactor.seconds"), ("else/if", "on_pong")]),
    -- how a connection's loss reaches the Manager: `select()` → `set_manager` registers on the
    -- one-shot `_disconnected` observer (fires even if the close came first), `connectionLost` fires it
    ("DilatedConnectionProtocol.set_manager", [("-", "self.when_disconnected"), ("-", "?.addCallback")]),
    ("DilatedConnectionProtocol.when_disconnected", [("-", "_disconnected.when_fired")]),
    ("DilatedConnectionProtocol.connectionLost", [("-", "_disconnected.fire")]),
    ("DilatedConnectionProtocol.disconnect", [("-", "transport.loseConnection")]),
    ("Connector.consider", [("if", "_eventual_queue.eventually"), ("else", "_eventual_queue.eventually")]),
    ("Connector.select_and_stop_remaining",
      [("-", "_contenders.clear"), ("-", "self.stop_listeners"), ("-", "self.stop_pending_connectors"),
       ("-", "self.stop_pending_connections"), ("-", "c.select"), ("if", "KCM"), ("if", "c.send_record"),
       ("-", "_manager.connector_connection_made")]),
    -- inbound flow control and what `dataReceived` does with a record
    ("Inbound.use_connection", [("if", "_connection.pauseProducing")]),
    ("Inbound.stop_using_connection", []),
    ("Inbound.subchannel_pauseProducing", [("if", "_connection.pauseProducing")]),
    ("Inbound.subchannel_resumeProducing", [("if", "_connection.resumeProducing")]),
    ("Inbound.subchannel_stopProducing", [("if", "_connection.resumeProducing")]),
    ("Inbound.subchannel_closed", [("-", "self.subchannel_stopProducing")]),
    ("DilatedConnectionProtocol.dataReceived",
      [("try", "_record.add_and_unframe"), ("try/for/if/if", "KCM"), ("try/for/if/if", "_record.send_record"),
       ("try/for/else/if", "self.got_kcm"), ("try/for/else/else", "self.got_record"),
       ("except", "transport.loseConnection")]),
    ("TrafficTimer.begin_timing", [("-", "self.start_timer")]),
    ("TrafficTimer.signal_reconnect", [("-", "self.on_reconnect")]) ]

def skeletonOK : Bool :=
  expectedSkeleton.all (fun (k, v) => Skel.skeleton k == v) && Flags.data_received_catches_only_disconnect

/-! ## driver (line protocol)

```
cfg <T>            -> ok            (ping interval in ticks, T ≥ 1)
start | please 0/1 | made | made+lost | lost | stop | reconnecting | reconnect | pong <k> | pause | resume | stall <n> | adv <n>
rnd <k> <k> …      (what the next `os.urandom(4)` calls return; `q=` in the summary = draws still fixed)
                   -> [<Exception> ]<state summary>
```
-/

def showOpt (o : Option Nat) : String := match o with | some n => toString n | none => "-"

def showSt (s : St) : String :=
  let role := match s.role with | some true => "L" | some false => "F" | none => "-"
  let tt := match s.traffic with | some t => TrafficTimer.State.name t | none => "-"
  let pings := ",".intercalate (s.pings.map (fun p => toString p.id))
  let wire := ";".intercalate ((s.wireLog.drop (s.wireLog.length - 4)).map
    (fun (c, i, t) => s!"{c}:{i}@{t}"))
  let drops := ";".intercalate (s.drops.map (fun (c, t) => s!"{c}@{t}"))
  let ab := ";".intercalate (s.abandons.map (fun (c, t) => s!"{c}@{t}"))
  s!"t={s.now} q={s.draws.length} M={Manager.State.name s.mgr} role={role} TT={tt} timer={showOpt s.timer} conn={showOpt s.conn} out={showOpt s.outConn} paused={s.outPaused} rp={s.readPaused} cons=[{",".intercalate (s.inPaused.map toString)}] pings=[{pings}] nwire={s.wireLog.length} wire=[{wire}] drops=[{drops}] abandons=[{ab}]"

structure DrvSt where
  T : Nat
  s : St

def drvInit : DrvSt := { T := 1, s := init }

def showRes (r : Res) : String :=
  match r with
  | (s, none) => showSt s
  | (s, some e) => e.name ++ " " ++ showSt s

def drvStep (d : DrvSt) (line : String) : DrvSt × String :=
  let cfg := Cfg.real d.T
  let doOp (o : Op) : DrvSt × String :=
    let r := step cfg d.s o
    ({ d with s := r.1 }, showRes r)
  match tokens line with
  | ["reset"] => (drvInit, "ok")
  | ["cfg", t] =>
    match t.toNat? with
    | some (k + 1) => ({ T := k + 1, s := init }, "ok")
    | _ => (d, "bad-op")
  | ["start"] => doOp .start
  | ["please", b] => doOp (.please (b == "1"))
  | ["made"] => doOp .made
  | ["made+lost"] =>
    -- the selected connection's transport had already closed: `select()` and the loss report run in
    -- the same flush of the eventual queue (`set_manager` → `when_disconnected()` of a fired observer)
    let r := (step cfg d.s .made).andThen (fun s1 => step cfg s1 .lost)
    ({ d with s := r.1 }, showRes r)
  | ["lost"] => doOp .lost
  | ["stop"] => doOp .stop
  | ["reconnecting"] => doOp .reconnecting
  | ["reconnect"] => doOp .reconnect
  | ["pong", k] =>
    match k.toNat? with
    | some id => doOp (.pong id)
    | none => (d, "bad-op")
  | ["stall", n] =>
    match n.toNat? with
    | some k => doOp (.stall k)
    | none => (d, "bad-op")
  | ["cpause", k] =>
    match k.toNat? with
    | some i => doOp (.cpause i)
    | none => (d, "bad-op")
  -- resume / stop / close of a subchannel's consumer all end in the same Inbound code
  | ["cresume", k] =>
    match k.toNat? with
    | some i => doOp (.cresume i)
    | none => (d, "bad-op")
  | ["cstop", k] =>
    match k.toNat? with
    | some i => doOp (.cresume i)
    | none => (d, "bad-op")
  | ["cclose", k] =>
    match k.toNat? with
    | some i => doOp (.cresume i)
    | none => (d, "bad-op")
  | ["badseg"] =>
    -- one TCP segment [record whose handler raises, Pong]: the exception escapes `dataReceived`
    -- (`Flags.data_received_catches_only_disconnect`), the reactor drops the transport: a loss.  Were
    -- it swallowed, nothing would happen here and the Pong would stay unparsed in the framer.
    if Flags.data_received_catches_only_disconnect then doOp .lost else (d, showSt d.s)
  | ["pause"] => doOp .pause
  | ["resume"] => doOp .resume
  | "rnd" :: ks =>
    -- the 4-byte values the harness's `os.urandom` will hand the Manager next, as first-occurrence indices
    match ks.mapM String.toNat? with
    | some ids => doOp (.rnd ids)
    | none => (d, "bad-op")
  | ["adv", n] =>
    match n.toNat? with
    | some k =>
      let r := advance cfg k d.s
      ({ d with s := r.1 }, showRes r)
    | none => (d, "bad-op")
  | _ => (d, "bad-op")

def driver (lines : List String) : List String := runLines drvStep drvInit lines

end WV.C16
