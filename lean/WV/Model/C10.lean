import WV.Model.Basic
import WV.Gen.Skel
import WV.Gen.T_SubChannel
import WV.Gen.Flags

/-!
C10 — Dilation L3/L4 reliability layer (the ARQ): every Open/Data/Close built by one side is
dispatched at the other side exactly once and in order, across any number of L2 connection
generations.

Model of `src/wormhole/_dilation/outbound.py` (`Outbound.build_record`, `queue_and_send_record`,
`send_if_connected`, `use_connection`, `stop_using_connection`, `handle_ack`, `pauseProducing`,
the `_queued_unsent` drain of `resumeProducing`), `inbound.py` (`_highest_inbound_acked`,
`is_record_old`, `update_ack_watermark`) and `manager.py` (`Manager.got_record`,
`_queue_and_send`, `send_ack`).

A `Side` is one Manager's Outbound + Inbound plus the fake L2 connection it currently writes to.
`out` is the FIFO of records this side handed to `connection.send_record` on its current (or most
recent) connection and that the peer has not read yet.  A generation ends for the writer when it
calls `use_connection` again: whatever is still in `out` then is lost (any suffix, data and acks
alike); the peer reads the head of `out` whenever the schedule says so.  The receiver's own
connection state only decides whether its acks are written or dropped (`send_if_connected`), so
"the peer is between connections", "the ack was lost", "the receiver has not noticed the loss yet"
are all schedules of the same events.  This over-approximates what TCP + the Manager/Connector
state machines allow (C11), which is the right direction for a safety proof.

The transport's flow control is `budget`: the fake transport calls `pauseProducing()` from inside
the `budget`-th `send_record` (0 = never), which is how a pause lands in the middle of the replay
loop of `use_connection` / `resumeProducing`.
-/
namespace WV.C10
open WV WV.Gen

/-! ## records -/

inductive Body where
  | opn (scid : Nat) (sub : Bytes)
  | data (scid : Nat) (d : Bytes)
  | close (scid : Nat)
  deriving DecidableEq, Repr

/-- an `Open`/`Data`/`Close` namedtuple: the seqnum given by `build_record` and the rest -/
structure Rec where
  seqnum : Nat
  body : Body
  deriving DecidableEq, Repr

/-- what travels over an L2 connection at this layer -/
inductive Wire where
  | msg (r : Rec)
  | ack (resp : Nat)
  deriving DecidableEq, Repr

inductive Err where
  | assertion        -- `assert not self._queued_unsent` in `use_connection`
  | attributeError   -- `self._connection.transport` with `_connection is None`
  | illegal          -- not a Python exception: the schedule asked for something the environment cannot do
  deriving DecidableEq, Repr

def Err.name : Err → String
  | .assertion => "AssertionError" | .attributeError => "AttributeError" | .illegal => "illegal"

/-! ## L4 on the receiving side: `Inbound.handle_open/data/close`, `SubChannel` before and after it
gets a protocol, `SubchannelDemultiplex` (listeners registered late)

Every protocol the application builds in this model is an `IHalfCloseableProtocol` that only
listens (it never writes and never closes), so a dispatched record never makes the receiver write:
the subchannels stay in `unconnected` / `open_half` / `read_closed`.  The transition table is the
generated `WV.Gen.SubChannel.table`. -/

/-- what a subchannel's protocol has been told -/
inductive AppEv where
  | made                   -- `makeConnection` / `connectionMade`
  | data (d : Bytes)       -- `dataReceived`
  | rclosed                -- `readConnectionLost`
  deriving DecidableEq, Repr

/-- one `SubChannel` object of `Inbound._open_subchannels` -/
structure Sub where
  scid : Nat
  name : Bytes                 -- `_peer_addr.subprotocol`
  st : SubChannel.State
  pendData : List Bytes        -- this SubChannel's own `_pending_remote_data`
  pendClose : Bool             -- `_pending_remote_close`
  shown : List AppEv           -- calls made on this subchannel's protocol, in order
  deriving DecidableEq, Repr

structure L4 where
  subs : List Sub                  -- `_open_subchannels`, insertion order
  factories : List Bytes           -- `SubchannelDemultiplex._factories` (names listened for)
  pendOpens : List (Bytes × Nat)   -- `_pending_opens` (name, scid), arrival order
  fault : Bool                     -- an Automat `NoTransition` left `got_record`
  deriving DecidableEq, Repr

def L4.init : L4 := { subs := [], factories := [], pendOpens := [], fault := false }

/-- one `@m.output` of SubChannel (only those a listening half-closeable protocol can reach have an effect) -/
def runOut (arg : Bytes) (s : Sub) : SubChannel.Output → Sub
  | .queue_remote_data => { s with pendData := s.pendData ++ [arg] }
  | .queue_remote_close => { s with pendClose := true }
  | .signal_dataReceived => { s with shown := s.shown ++ [.data arg] }
  | .signal_readConnectionLost => { s with shown := s.shown ++ [.rclosed] }
  | _ => s

/-- an Automat input of one SubChannel; `none` = `NoTransition` -/
def subInput (s : Sub) (i : SubChannel.Input) (arg : Bytes) : Option Sub :=
  match SubChannel.table s.st i with
  | none => none
  | some (st', outs) => some (outs.foldl (runOut arg) { s with st := st' })

/-- `for data in self._pending_remote_data: self.remote_data(data)` -/
def replayData : Sub → List Bytes → Option Sub
  | s, [] => some s
  | s, d :: ds => match subInput s .remote_data d with
    | none => none
    | some s' => replayData s' ds

/-- `SubchannelDemultiplex._connect`: `buildProtocol`, `t._set_protocol(p)`, `p.makeConnection(t)`,
    `t._deliver_queued_data()` -/
def connectSub (s : Sub) : Option Sub :=
  match subInput s .connect_protocol_half [] with
  | none => none
  | some s1 =>
    match replayData { s1 with shown := s1.shown ++ [.made] } s1.pendData with
    | none => none
    | some s3 =>
      let s4 := { s3 with pendData := [] }                      -- del self._pending_remote_data
      if s4.pendClose then
        (subInput s4 .remote_close []).map fun s5 => { s5 with pendClose := false }
      else some s4

def findSub (c : Nat) : List Sub → Option Sub
  | [] => none
  | s :: rest => if s.scid = c then some s else findSub c rest

/-- apply `f` to the subchannel with id `c`; `none` = `f` raised -/
def updSub (c : Nat) (f : Sub → Option Sub) : List Sub → Option (List Sub)
  | [] => some []
  | s :: rest =>
    if s.scid = c then (f s).map (· :: rest)
    else (updSub c f rest).map (s :: ·)

def L4.upd (t : L4) (c : Nat) (f : Sub → Option Sub) : L4 :=
  match updSub c f t.subs with
  | some subs' => { t with subs := subs' }
  | none => { t with fault := true }

/-- `Inbound.handle_open` + `SubchannelDemultiplex._got_open` -/
def handleOpen (t : L4) (c : Nat) (name : Bytes) : L4 :=
  match findSub c t.subs with
  | some _ => t                                               -- DuplicateOpenError is logged
  | none =>
    let sub : Sub := { scid := c, name := name, st := SubChannel.init, pendData := [], pendClose := false, shown := [] }
    let t1 := { t with subs := t.subs ++ [sub] }
    if t1.factories.contains name then t1.upd c connectSub
    else { t1 with pendOpens := t1.pendOpens ++ [(name, c)] }

/-- `Inbound.handle_data` -/
def handleData (t : L4) (c : Nat) (d : Bytes) : L4 :=
  match findSub c t.subs with
  | none => t                                                 -- DataForMissingSubchannelError is logged
  | some _ => t.upd c (fun s => subInput s .remote_data d)

/-- `Inbound.handle_close` -/
def handleClose (t : L4) (c : Nat) : L4 :=
  match findSub c t.subs with
  | none => t                                                 -- CloseForMissingSubchannelError is logged
  | some _ => t.upd c (fun s => subInput s .remote_close [])

/-- the tail of `Manager.got_record` for a record that is not old -/
def l4Dispatch (t : L4) (r : Rec) : L4 :=
  match r.body with
  | .opn c name => handleOpen t c name
  | .data c d => handleData t c d
  | .close c => handleClose t c

/-- `SubchannelDemultiplex.register(name, factory)`: the pending OPENs of that name, oldest first -/
def connectPending (name : Bytes) : L4 → List (Bytes × Nat) → L4
  | t, [] => t
  | t, (n, c) :: rest => if n = name then connectPending name (t.upd c connectSub) rest else connectPending name t rest

def l4Listen (t : L4) (name : Bytes) : L4 :=
  let t1 := { t with factories := t.factories ++ [name],
                     pendOpens := t.pendOpens.filter (fun p => p.1 != name) }
  connectPending name t1 t.pendOpens

/-! ## one side -/

structure Side where
  -- Outbound
  queue : List Rec          -- `_outbound_queue`
  unsent : List Rec         -- `_queued_unsent`
  next : Nat                -- `_next_outbound_seqnum`
  conn : Bool               -- `_connection is not None`
  paused : Bool             -- `_paused`
  -- the fake L2 connection
  out : List Wire           -- handed to `send_record`, not yet read by the peer
  budget : Nat              -- transport pauses us inside the `budget`-th `send_record` from now (0 = never)
  -- the new L2 connection between its KCM and the Connector's `select()` turn
  parked : List Wire        -- `DilatedConnectionProtocol._inbound_record_queue`
  -- Inbound
  high : Int                -- `_highest_inbound_acked`
  dispatched : List Rec     -- every record `handle_open/handle_data/handle_close` was called for, in order
  l4 : L4                   -- subchannels, listeners
  -- ghost
  built : List Rec          -- every record `build_record` ever returned, in order
  deriving DecidableEq, Repr

def Side.init : Side :=
  { queue := [], unsent := [], next := 0, conn := false, paused := true, out := [], budget := 0,
    parked := [], high := -1, dispatched := [], l4 := L4.init, built := [] }

/-- `Outbound.pauseProducing` (this model registers no subchannel producers: that is C15) -/
def pauseProducing (s : Side) : Side :=
  if s.paused then s else { s with paused := true }

/-- fake `connection.send_record(r)`: the record is on its way; the transport may call our
    `pauseProducing()` synchronously from inside the write -/
def connSend (s : Side) (w : Wire) : Side :=
  let s1 := { s with out := s.out ++ [w] }
  if s1.budget = 1 then pauseProducing { s1 with budget := 0 }
  else { s1 with budget := s1.budget - 1 }

/-- the `while not self._paused:` loop of `resumeProducing`, as far as `_queued_unsent` goes
    (with no registered producer `_get_next_unpaused_producer()` is `None` and the loop breaks).
    Structural on the unsent deque; the `unsent` field is written back when the loop ends. -/
def drain : Side → List Rec → Side
  | s, [] => { s with unsent := [] }
  | s, r :: rest =>
    if s.paused then { s with unsent := r :: rest }
    else drain (connSend s (.msg r)) rest          -- popleft(); send_record(r); continue

/-- `Outbound.resumeProducing` -/
def resumeProducing (s : Side) : Side :=
  if !s.paused then s                                -- "someone is confused and called us twice"
  else drain { s with paused := false } s.unsent

/-- `Outbound.use_connection(c)` with a fresh fake connection of the given budget -/
def useConnection (s : Side) (budget : Nat) : Except Err Side :=
  let s1 := { s with conn := true, out := [], budget := budget }     -- self._connection = c
  if s1.unsent ≠ [] then .error .assertion                            -- assert not self._queued_unsent
  else .ok (resumeProducing { s1 with unsent := s1.unsent ++ s1.queue })  -- extend; registerProducer; resumeProducing

/-- `Outbound.stop_using_connection()` -/
def stopUsingConnection (s : Side) : Except Err Side :=
  if !s.conn then .error .attributeError              -- None.transport.unregisterProducer()
  else .ok (pauseProducing { s with conn := false, unsent := [] })

/-- `Outbound.queue_and_send_record(r)` -/
def queueAndSend (s : Side) (r : Rec) : Side :=
  let s1 := { s with queue := s.queue ++ [r] }
  if s1.conn then
    if s1.unsent ≠ [] then { s1 with unsent := s1.unsent ++ [r] }    -- keep ordering behind the replay
    else connSend s1 (.msg r)
  else s1

/-- `Manager._queue_and_send(record_type, *args)`: `build_record` then `queue_and_send_record` -/
def write (s : Side) (b : Body) : Side :=
  let r : Rec := { seqnum := s.next, body := b }
  queueAndSend { s with next := s.next + 1, built := s.built ++ [r] } r

/-- `Outbound.send_if_connected(r)` -/
def sendIfConnected (s : Side) (w : Wire) : Side :=
  if s.conn then connSend s w else s

/-- `Outbound.handle_ack(resp_seqnum)` -/
def handleAck (s : Side) (resp : Nat) : Side :=
  { s with queue := s.queue.dropWhile (fun r => decide (r.seqnum ≤ resp)),
           unsent := s.unsent.dropWhile (fun r => decide (r.seqnum ≤ resp)) }

/-- `Inbound.is_record_old(r)` -/
def isRecordOld (s : Side) (r : Rec) : Bool := decide ((r.seqnum : Int) ≤ s.high)

/-- `Inbound.update_ack_watermark(seqnum)` -/
def updateAckWatermark (s : Side) (seqnum : Nat) : Side := { s with high := max s.high (seqnum : Int) }

/-- `Manager.got_record(r)` for the four record kinds of this layer -/
def gotRecord (s : Side) : Wire → Side
  | .msg r =>
    let s1 := sendIfConnected s (.ack r.seqnum)        -- always ack, even for old ones
    if isRecordOld s1 r then s1
    else
      let s2 := updateAckWatermark s1 r.seqnum
      { s2 with dispatched := s2.dispatched ++ [r],    -- handle_open / handle_data / handle_close
                l4 := l4Dispatch s2.l4 r }
  | .ack resp => handleAck s resp

/-- `DilatedConnectionProtocol.process_inbound_queue`, run by `select(manager)`:
    `while queue: r = queue.pop(0); manager.got_record(r)` — oldest first -/
def processInboundQueue : Side → List Wire → Side
  | s, [] => { s with parked := [] }
  | s, m :: rest => processInboundQueue (gotRecord { s with parked := rest } m) rest

/-- `SubchannelListenerEndpoint.listen(factory)` once the main channel has fired -/
def listen (s : Side) (name : Bytes) : Side := { s with l4 := l4Listen s.l4 name }

/-! ## the two-sided world and its schedules -/

structure World where
  a : Side
  b : Side
  deriving DecidableEq, Repr

def World.init : World := { a := Side.init, b := Side.init }
def World.swap (w : World) : World := { a := w.b, b := w.a }

inductive Act where
  | write (b : Body)        -- the application opens / writes / closes
  | use (budget : Nat)      -- `connector_connection_made(c)`
  | lose                    -- `connector_connection_lost()`
  | pause                   -- the transport calls `pauseProducing()`
  | resume (budget : Nat)   -- the transport calls `resumeProducing()`
  | deliver                 -- the oldest record in flight from the peer reaches `got_record`
  | park                    -- …reaches our new, not yet selected, L2 connection and is queued there
  | unpark                  -- `select()` hands the oldest parked record to `got_record` (first part of `use`)
  | listen (name : Bytes)   -- the application registers its listener for a subprotocol
  deriving DecidableEq, Repr

inductive Who where
  | A | B
  deriving DecidableEq, Repr

abbrev Event := Who × Act

/-- what the environment can do: one connection at a time per side, flow-control calls only from
    a registered transport, deliveries only of what is in flight -/
def enabledA (w : World) : Act → Bool
  | .write _ => true
  | .use _ => !w.a.conn
  | .lose => w.a.conn
  | .pause => w.a.conn
  | .resume _ => w.a.conn
  | .deliver => !w.b.out.isEmpty && w.a.parked.isEmpty
  | .park => !w.a.conn && !w.b.out.isEmpty
  | .unpark => !w.a.conn && !w.a.parked.isEmpty
  | .listen n => !w.a.l4.factories.contains n

/-- an act of side `a` (the peer is `b`) -/
def stepA (w : World) : Act → Except Err World
  | .write b => .ok { w with a := write w.a b }
  | .use k =>
    if w.a.conn then .error .illegal
    else (useConnection (processInboundQueue w.a w.a.parked) k).map fun a' => { w with a := a' }
      -- Connector.select_and_stop_remaining: c.select(manager) drains the parked records, then
      -- manager.connector_connection_made(c)
  | .lose => (stopUsingConnection w.a).map fun a' => { w with a := a' }
  | .pause =>
    if w.a.conn then .ok { w with a := pauseProducing w.a } else .error .illegal
  | .resume k =>
    if w.a.conn then .ok { w with a := resumeProducing { w.a with budget := k } } else .error .illegal
  | .deliver =>
    if w.a.parked ≠ [] then .error .illegal else
    match w.b.out with
    | [] => .error .illegal
    | m :: rest => .ok { a := gotRecord w.a m, b := { w.b with out := rest } }
  | .park =>
    if w.a.conn then .error .illegal else
    match w.b.out with
    | [] => .error .illegal
    | m :: rest => .ok { a := { w.a with parked := w.a.parked ++ [m] }, b := { w.b with out := rest } }
  | .unpark =>
    -- one turn of `process_inbound_queue`: `r = queue.pop(0); manager.got_record(r)`; the real code runs all of
    -- them and then `connector_connection_made` in one go (`use`), a record's handling may make the application write
    if w.a.conn then .error .illegal else
    match w.a.parked with
    | [] => .error .illegal
    | m :: rest => .ok { w with a := gotRecord { w.a with parked := rest } m }
  | .listen n =>
    if w.a.l4.factories.contains n then .error .illegal      -- ValueError: already listening
    else .ok { w with a := listen w.a n }

def step (w : World) : Event → Except Err World
  | (.A, act) => stepA w act
  | (.B, act) => (stepA w.swap act).map World.swap

def enabled (w : World) : Event → Bool
  | (.A, act) => enabledA w act
  | (.B, act) => enabledA w.swap act

/-- the application calls made by side `x` in a schedule, in order -/
def issued (x : Who) : List Event → List Body
  | [] => []
  | (y, .write b) :: es => if y = x then b :: issued x es else issued x es
  | _ :: es => issued x es

/-- a whole schedule; the first failing event ends it -/
def run : World → List Event → Except Err World
  | w, [] => .ok w
  | w, e :: es =>
    match step w e with
    | .ok w' => run w' es
    | .error x => .error x

/-! ## the order of calls, as written above (compared with the generated skeletons in Props) -/

def skel_got_record : List (String × String) :=
  [("if", "self.send_ack"), ("if", "_inbound.is_record_old"), ("if", "_inbound.update_ack_watermark"),
   ("if/if", "_inbound.handle_open"), ("if/else/if", "_inbound.handle_data"), ("if/else/else", "_inbound.handle_close"),
   ("if", "UnexpectedKCM"), ("else/if", "self.handle_ping"), ("else/else/if", "self.handle_pong"),
   ("else/else/else/if", "_outbound.handle_ack"), ("else/else/else/else", "UnknownMessageType")]
def skel_queue_and_send : List (String × String) :=
  [("-", "_outbound.build_record"), ("-", "_outbound.queue_and_send_record")]
def skel_queue_and_send_record : List (String × String) := [("if/else", "_connection.send_record")]
def skel_send_if_connected : List (String × String) := [("if", "_connection.send_record")]
def skel_use_connection : List (String × String) :=
  [("-", "_queued_unsent.extend"), ("-", "c.transport.registerProducer"), ("-", "self.resumeProducing")]
def skel_stop_using_connection : List (String × String) :=
  [("-", "_connection.transport.unregisterProducer"), ("-", "_queued_unsent.clear"), ("-", "self.pauseProducing")]
def skel_resumeProducing : List (String × String) :=
  [("while/if", "_connection.send_record"), ("while", "self._get_next_unpaused_producer"), ("while", "p.resumeProducing")]
def skel_send_ack : List (String × String) := [("-", "Ack"), ("-", "_outbound.send_if_connected")]
def skel_connection_made : List (String × String) :=
  [("if/if", "TrafficTimer"), ("if", "_traffic.got_connection"), ("-", "self.connection_made"),
   ("-", "_inbound.use_connection"), ("-", "_outbound.use_connection"), ("if", "_main_channel.fire")]
def skel_stop_using : List (String × String) :=
  [("if", "_timer.cancel"), ("-", "_inbound.stop_using_connection"), ("-", "_outbound.stop_using_connection")]

def skel_process_inbound_queue : List (String × String) := [("while", "_manager.got_record")]
def skel_deliver_queued_data : List (String × String) := [("for", "self.remote_data"), ("if", "self.remote_close")]
/-- `SubChannel.pauseProducing/resumeProducing` only forward to the Manager (they throttle the NEXT read of the L2
    connection), and `signal_dataReceived` hands the chunk to the protocol unconditionally: a paused protocol is
    still given every record that was already read — which is why this model has no pause flag and dispatch
    (`runOut .signal_dataReceived`, `.signal_readConnectionLost`) never looks at one. -/
def skel_signal_dataReceived : List (String × String) := [("-", "_protocol.dataReceived")]
def skel_signal_readConnectionLost : List (String × String) :=
  [("-", "IHalfCloseableProtocol"), ("-", "?.readConnectionLost")]
def skel_sub_pauseProducing : List (String × String) := [("-", "_manager.subchannel_pauseProducing")]
def skel_sub_resumeProducing : List (String × String) := [("-", "_manager.subchannel_resumeProducing")]
def skel_handle_data : List (String × String) := [("if", "DataForMissingSubchannelError"), ("-", "sc.remote_data")]
def skel_handle_close : List (String × String) := [("if", "CloseForMissingSubchannelError"), ("-", "sc.remote_close")]
def skel_handle_open : List (String × String) :=
  [("if", "DuplicateOpenError"), ("-", "SubchannelAddress"), ("-", "SubChannel"),
   ("try", "_manager._subprotocol_factories._got_open"), ("except", "_manager.send_close")]

/-! ## driver (line protocol)

```
write <A|B> open <scid> <subhex> | write <A|B> data <scid> <hex> | write <A|B> close <scid>
use <A|B> <budget> | lose <A|B> | pause <A|B> | resume <A|B> <budget> | deliver <A|B> | park <A|B> | unpark <A|B>
listen <A|B> <namehex>
```
Every line answers `<ok|delivered record|exception> A{…} B{…}` with the full state of both sides.
-/

/-- payloads longer than 40 bytes travel in the answer lines as length, byte sum, first and last four bytes -/
def showBytes (b : Bytes) : String :=
  if b.length ≤ 40 then toHex b
  else s!"#{b.length}.{b.foldl (· + ·) 0}.{toHex (b.take 4)}.{toHex (b.drop (b.length - 4))}"

def showRec (r : Rec) : String :=
  match r.body with
  | .opn c sub => s!"open:{r.seqnum}:{c}:{toHex sub}"
  | .data c d => s!"data:{r.seqnum}:{c}:{showBytes d}"
  | .close c => s!"close:{r.seqnum}:{c}"

def showWire : Wire → String
  | .msg r => showRec r
  | .ack n => s!"ack:{n}"

def bit (b : Bool) : String := if b then "1" else "0"

def showEv : AppEv → String
  | .made => "o"
  | .data d => "d" ++ showBytes d
  | .rclosed => "c"

def showSub (s : Sub) : String :=
  s!"{s.scid}/{toHex s.name}/{SubChannel.State.name s.st}/{",".intercalate (s.shown.map showEv)}/{",".intercalate (s.pendData.map showBytes)}/{bit s.pendClose}"

def showSide (s : Side) : String :=
  s!"q=[{showNats (s.queue.map (·.seqnum))}] u=[{showNats (s.unsent.map (·.seqnum))}] n={s.next} c={bit s.conn} p={bit s.paused} bud={if s.conn then s.budget else 0} out=[{" ".intercalate (s.out.map showWire)}] park=[{" ".intercalate (s.parked.map showWire)}] h={s.high} disp=[{" ".intercalate (s.dispatched.map showRec)}] f=[{" ".intercalate (s.l4.factories.map toHex)}] subs=[{" ".intercalate (s.l4.subs.map showSub)}]"

def showWorld (w : World) : String := "A{" ++ showSide w.a ++ "} B{" ++ showSide w.b ++ "}"

def readWho? : String → Option Who
  | "A" => some .A | "B" => some .B | _ => none

def readEvent? : List String → Option Event
  | ["write", x, "open", c, h] => do pure (← readWho? x, .write (.opn (← c.toNat?) (← fromHex? h)))
  | ["write", x, "data", c, h] => do pure (← readWho? x, .write (.data (← c.toNat?) (← fromHex? h)))
  | ["write", x, "close", c] => do pure (← readWho? x, .write (.close (← c.toNat?)))
  | ["use", x, k] => do pure (← readWho? x, .use (← k.toNat?))
  | ["lose", x] => do pure (← readWho? x, .lose)
  | ["pause", x] => do pure (← readWho? x, .pause)
  | ["resume", x, k] => do pure (← readWho? x, .resume (← k.toNat?))
  | ["deliver", x] => do pure (← readWho? x, .deliver)
  | ["park", x] => do pure (← readWho? x, .park)
  | ["unpark", x] => do pure (← readWho? x, .unpark)
  | ["listen", x, h] => do pure (← readWho? x, .listen (← fromHex? h))
  | _ => none

/-- head of the channel the event reads, for the answer line of `deliver` -/
def deliveredOf (w : World) : Event → String
  | (.A, .deliver) => match w.b.out with | m :: _ => showWire m | [] => "ok"
  | (.B, .deliver) => match w.a.out with | m :: _ => showWire m | [] => "ok"
  | (.A, .unpark) => match w.a.parked with | m :: _ => showWire m | [] => "ok"
  | (.B, .unpark) => match w.b.parked with | m :: _ => showWire m | [] => "ok"
  | (.A, .park) => match w.b.out with | m :: _ => showWire m | [] => "ok"
  | (.B, .park) => match w.a.out with | m :: _ => showWire m | [] => "ok"
  | _ => "ok"

def drvStep (w : World) (line : String) : World × String :=
  match tokens line with
  | ["reset"] => (World.init, "ok")
  | ts =>
    match readEvent? ts with
    | none => (w, "bad-op")
    | some e =>
      match step w e with
      | .ok w' =>
        -- an Automat NoTransition inside got_record / select(): the real call raises
        if (w'.a.l4.fault && !w.a.l4.fault) || (w'.b.l4.fault && !w.b.l4.fault) then (w', "NoTransition")
        else (w', deliveredOf w e ++ " " ++ showWorld w')
      | .error x => (w, x.name)

def driver (lines : List String) : List String := runLines drvStep World.init lines

end WV.C10
