/-!
PyIR — a small deep embedding of the Python subset in which the state-machine outputs of the mailbox
client (`_mailbox.py`, `_order.py`, `_send.py`, `_receive.py`, `_boss.py`, …) are written, with a total
interpreter.  `tools/extract.py::extract_pyir` translates the method bodies of the working tree into this
IR on every run (`WV.Gen.PyIR.body`); `WV.Props.PyIR_*` prove, per method, that the interpreter run on the
*generated* body agrees with the hand-written output semantics of the models (translation validation).

Import-free on purpose (it is compiled into the executable library next to the models).

Semantics, and where it is deliberately narrower than CPython (every narrowing raises the pseudo-exception
`Unsupported`, which no model outcome ever contains — so a body that steps outside the subset can never
validate by accident):

* ints are `Nat`: the translated code only counts upwards from 0 (`_next_tx_phase`, `_next_rx_phase`, `len`,
  `int()` behind `\d+`); there is no subtraction in the IR.
* `==`/`!=`/`in` compare *scalars* (None, bool, int, str, bytes).  bool-vs-int comparisons (where Python says
  `True == 1`) and comparisons of containers/objects are `Unsupported`.
* `dict` is an insertion-ordered association list, `set` a duplicate-free list in insertion order (order of a
  set is never observable: there is no iteration over sets and no set equality in the IR).
* expressions are pure.  The only effectful "expressions" of the source, `d.pop(k)` / `q.popleft()` used as a
  value, are statements `x = self._a.pop(k)` here; the translator hoists them out of an argument list only
  when everything evaluated before them is a constant or a local (see `extract_pyir`).
* `for pattern in e:` iterates over a snapshot of the value of `e` taken when the loop starts.  CPython
  iterates over the live list / raises RuntimeError for a dict that changes size; the translator therefore
  refuses (lists the method under `untranslatable`) any loop whose body — or a sibling method called from
  it — mutates the attribute that is being iterated.
* a collaborator call `self._X.meth(args…)` (and an Automat input on `self`, `self.inp(args…)`) is not
  executed: it is recorded, with evaluated arguments, in `calls`; the models route these.  `Env.raises`
  lets the k-th recorded call raise (the collaborator failed), so that what a method has already done and
  not yet done at each call is observable.
* a sibling plain method `self._meth(args…)` is interpreted by lookup in the method table, with fuel.
* `while` and sibling calls consume fuel; running out raises the pseudo-exception `OutOfFuel`.
* external functions (`derive_phase_key`, `encrypt_data`, `decrypt_data`, `int`, `re.search`, f-strings …)
  and `"%d" % n` get their meaning from `Env`; they are pure and may raise.
* `except Cls:` / `except (A, B):` match the exception class by name (no subclass relation).
* `x = self._X.meth(…)` (`emitTo`) records the call like any collaborator call; its value is `Env.rets k`.
* `with self._X.meth(…):` is translated as the recorded call followed by the block: the context manager's
  `__exit__` is assumed not to swallow exceptions (the only one in the translated code is `DebugTiming`'s event).
* a keyword argument of a recorded call is passed positionally after the positional ones and its name is
  appended to the method name: `add("pake1", waiting="crypto")` is the call `add[waiting]("pake1", "crypto")`.

[dil] additions for the Dilation data path (`_dilation/outbound.py`, `inbound.py`; `WV.Gen.PyIRDil`), all additive:
* `Val.ref cls id` is an object with identity (a producer, a subchannel, a connection): hashable, `==` is identity
  (`id`), truthy.  `Val.nint n` is the negative int `-(n+1)` (`_highest_inbound_acked` starts at -1); `le`/`max2`
  work on both kinds of int, every other arithmetic on a negative int stays `Unsupported`.
* a namedtuple record (`Open/Data/Close/Ack/…`) is `Val.obj cls fields`; `r.seqnum` is `fieldAt r "seqnum" i` with the
  position `i` computed by the translator from the record classes of the working tree (it refuses when the classes
  having that field disagree on its position).
* `isinstanceAny e [A, B]` matches the class name of an `obj`/`ref` (no subclass relation).
* a deque is a `list` (left = index 0): `extend`, `listRemove` (ValueError), `rotateLeft` (= `rotate(-1)`),
  `clearAny`; sets: `setDiscard`, `setRemove` (KeyError), `isDisjoint`, `setUnion`, `setOf`, `setEq`.
* `break`/`continue` are the pseudo-exceptions `$break`/`$continue`, caught by the loops `whileBC`/`forInBC` that the
  translator emits for every loop containing one; no `except` clause can name them.
* `emitA`/`emitV` record a call on a collaborator held in an attribute (AttributeError when it is `None`) / on a
  value; after the call is recorded, `Env.reenter k` (default: nothing) lists sibling methods that the callee
  calls back synchronously on `self` before it returns (the transport calling `pauseProducing()` from inside
  `send_record`) — they are interpreted, with the remaining fuel, on the heap as it is at that moment.

[deepConn] additions for the Dilation Connector (`_dilation/connector.py`; `WV.Gen.PyIRConn`), all additive:
* a module-level singleton (`LEADER`, `FOLLOWER` of roles.py: `object()`) is the value `Val.obj NAME []`; `a is NAME` is
  `isConst a NAME` (identity = same name; any other field-less object or scalar is a different object).
* `[f(x) for x in e]` with a pure external `f` is `mapExt f e` (`e` a list/tuple).
* `forInS` is `forIn` whose source may also be a `set` (the `EmptyableSet` subclass included): the elements are visited
  in the order of the representing list.  CPython's order is unspecified; theorems quantify over every representation, hence
  over every order.  Snapshot semantics as for `forIn` (the translator refuses bodies that mutate the iterated attribute).
* `emitVT x recv meth args` is `emitV` whose return value `env.rets k` is bound to `x`; `appendLocal x e` is `x.append(e)` on a
  local list: together they express `x = [c.meth() for c in self._set]` (a comprehension with effects) as a loop.
* `emitGT x f args` records the call of an effectful module-level function (`deferLater`) like `emitG "$g" f args`; its value is `env.rets k`.

[deepL2] additions for the L2 connection layer (`_dilation/connection.py`; `WV.Gen.PyIRL2`), all additive:
* `slice a lo hi` is `a[lo:hi]` on bytes with non-negative int bounds (CPython clamps to the length; no negative
  indices, no step); `startsWith` is `bytes.startswith`; `byteIn x b` is `b"<x>" in b` for a one-byte constant needle;
  `ge` is `>=`.
* a `yield e` of a generator is translated (by `extract_pyir_l2`) as the recorded call `$gen.yield(e)`: the consumer of
  the generator is a collaborator that receives the token; `Env.raises` = the consumer abandons the generator there
  (CPython: the frame is simply never resumed; what the generator has done so far persists).
* `x = self.<obj>.<meth>(args…)` is `emitToA`: the call is recorded like any collaborator call (`Env.raises` applies), its
  value — or the exception it raises — is `Env.retf k obj meth args`, a function of the call's position AND its evaluated
  arguments (the ideal Noise: `encrypt`/`decrypt` with the nonce counted by the position).
* an Automat input on `self` whose return value is used (`token = self.parse()`) is a sibling call `callSelf`; the
  method table the theorems run it with maps the input's name to a dispatcher built from the GENERATED transition
  table (`WV.Proofs.PyIRL2.inputBody`: new state first, then the outputs in order, `collector=first`).

[deepMgr] additions for the Dilation Manager / TrafficTimer (`_dilation/manager.py`; `WV.Gen.PyIRMgr`), all additive:
* `gt` (`a > b` on two ints or two strs, code-point order), `dictLit` (a dict literal / the `**kwargs` dict of a call, constant
  str keys), `setItemL` (`<local>[k] = v`).  A `**fields` parameter is an ordinary last parameter holding the dict; a
  nested `def` that uses nothing but `self` and its own parameters is a method of its own named `<outer>.<inner>` and the
  local holds `closure("<outer>.<inner>")` (Env); `LEADER`/`FOLLOWER` are `Val.obj "_Role" [.str which]`.

[deepRC] additions for the RendezvousConnector glue and Input (`WV.Gen.PyIRRC`), all additive:
* `tryCatchAll body x handler` is `try: … except Exception [as x]: …`: it catches every exception class except the
  interpreter's pseudo-exceptions (`Unsupported`, `OutOfFuel`, `$break`, `$continue`); a bare `raise` inside the handler
  is `.raise "$reraise" []`, turned back into the caught class when it leaves the handler ('run the handler, then
  re-raise the same exception').  State changes and recorded calls of body and handler persist.
* `**kwargs` of a method is an ordinary last parameter holding a `dict` with `str` keys; `setItemLK` is `kwargs[k] = v`;
  `setAddL` is `<local set>.add(e)`; a `for` may run over a local list that its body does not touch.
* `iterSet e` is the list of elements a `for` over the set `e` visits: the insertion order of the IR's representation.
  CPython's order is unspecified; a theorem about such a loop quantifies over every heap, hence over every order.
  `popLast` is `self.<a>.pop()` on a list.
* `d = defer.maybeDeferred(self._X.meth, args…)` is the recorded call `self._X.meth(args…)` (maybeDeferred calls it at
  once) whose value (`Env.rets k`) is the Deferred; `d.addCallback(f)` / `addErrback` / `addBoth` are recorded with
  `emitV` (receiver first); the callback is a *named continuation*: `self._m` is `method("_m")`, `log.err` is
  `function("log.err")`, `lambda _: self._X.meth(locals…)` is `callback("_X", "meth", locals…)`.  The Deferred
  machinery itself (when and in which order callbacks fire) stays outside the IR: it is the models' environment.
  Narrowing: a synchronous exception of the wrapped call propagates here, whereas `maybeDeferred` would turn it into a
  failed Deferred; `Env.raises` on such a call is only an observation device (what has been done before the call).

[deepSub] additions for subchannels (`_dilation/subchannel.py`, `manager.py`; `WV.Gen.PyIRSub`), all additive:
* `delAttr a` is `del self.<a>`: the attribute is gone, a later read raises AttributeError (as `readAttr` does).
* `appendAtD a k v` is `self.<a>[k].append(v)` on a `defaultdict(deque)` (the translator emits it only for an attribute
  the constructor creates as `defaultdict(deque)`): a missing key is inserted last with an empty deque, then appended to.
* `emitVTo x recv meth args` is `x = <value>.<meth>(args…)` (`p = factory.buildProtocol(addr)`): recorded with the
  receiver as first argument like `emitV`, the value is `Env.rets k`; no re-entrancy.
* `popleftLocal pat x` is `pat = <local>.popleft()` for a deque held in a local (`pending` in `register`).

[deepTr] additions for the transit `Connection` (`transit.py`; `WV.Gen.PyIRTr`), all additive:
* `sliceT a lo hi` is `a[lo:hi]` on bytes with absent or non-negative int bounds (`(b.take hi).drop lo`); `startswithT` on
  bytes; `geT` is `>=` on ints.
* `tryCatchAllT` is `try: … except Exception [as x]:` — it catches every exception class except the interpreter's
  pseudo-exceptions (`Unsupported`, `OutOfFuel`, `$break`, `$continue`); `raiseVT e` raises the class of the exception
  object `e` evaluates to: the bare `raise` inside such a handler is `raiseVT (var x)` (the translator emits it only there,
  with the handler's name, and refuses handlers that re-bind it), `raise self.state` is `raiseVT (attr state)`.
* `emitToFT x obj meth args` is `x = self.<obj>.<meth>(args…)` where the value returned is `Env.retOfT obj meth args` — a
  function of what is called with what (`emitTo` numbers the calls instead); `None` receiver = AttributeError.  A
  collaborator call in the argument list of another call (`self.transport.write(self.owner._send_this())`) is hoisted
  into such a statement, behind an explicit `if self.<obj> is None: raise AttributeError` for the outer receiver
  (CPython looks `self.transport.write` up before it evaluates the argument).
* the translator folds constant int arithmetic (`2**(8*24)`), reads module-level / class-level int constants
  (`TIMEOUT`, `SecretBox.NONCE_SIZE`) from the working tree, writes the idioms `int(hexlify(X), 16)` and
  `unhexlify(f"{E:0Nx}")` as the external functions `be_decode` / `be_fixed`, and `self.<box>.encrypt/decrypt(…)` on an
  attribute that holds a `SecretBox` as the external (pure) functions `SecretBox.encrypt/decrypt` (the ideal AEAD of `Env`).
-/
namespace WV.PyIR

inductive Val where
  | none
  | bool (b : Bool)
  | int (n : Nat)
  | str (s : String)
  | bytes (b : List Nat)
  | tuple (vs : List Val)
  | list (vs : List Val)
  | dict (kvs : List (Val × Val))
  | set (vs : List Val)
  | obj (cls : String) (fields : List Val)     -- `Cls(args…)`: exception instances and the like
  -- [dil] begin
  | ref (cls : String) (id : Nat)              -- an object with identity: `==`/hash by `id`
  | nint (n : Nat)                             -- the negative int `-(n+1)`
  -- [dil] end
  deriving Inhabited

/-- result of evaluating an expression: a value or a raised exception class -/
inductive Res (α : Type) where
  | ok (a : α)
  | exc (cls : String)
  deriving Inhabited

@[inline] def Res.bind {α β : Type} (r : Res α) (f : α → Res β) : Res β :=
  match r with
  | .ok a => f a
  | .exc c => .exc c

instance : Monad Res where
  pure := .ok
  bind := Res.bind

def unsupported {α : Type} : Res α := .exc "Unsupported"

/-! ## values -/

def Val.truthy : Val → Bool
  | .none => false
  | .bool b => b
  | .int n => n != 0
  | .str s => s != ""
  | .bytes b => !b.isEmpty
  | .tuple vs => !vs.isEmpty
  | .list vs => !vs.isEmpty
  | .dict kvs => !kvs.isEmpty
  | .set vs => !vs.isEmpty
  | .obj _ _ => true
  -- [dil] begin
  | .ref _ _ => true
  | .nint _ => true
  -- [dil] end

/-- `a == b` on scalars; `none` = outside the subset -/
def scalarEq : Val → Val → Option Bool
  | .none, .none => some true
  | .bool a, .bool b => some (a == b)
  | .int a, .int b => some (a == b)
  | .str a, .str b => some (a == b)
  | .bytes a, .bytes b => some (a == b)
  | .bool _, .int _ => none
  | .int _, .bool _ => none
  | .none, .bool _ | .none, .int _ | .none, .str _ | .none, .bytes _ => some false
  | .bool _, .none | .bool _, .str _ | .bool _, .bytes _ => some false
  | .int _, .none | .int _, .str _ | .int _, .bytes _ => some false
  | .str _, .none | .str _, .bool _ | .str _, .int _ | .str _, .bytes _ => some false
  | .bytes _, .none | .bytes _, .bool _ | .bytes _, .int _ | .bytes _, .str _ => some false
  -- [dil] begin
  | .ref _ a, .ref _ b => some (a == b)
  | .ref _ _, .none | .ref _ _, .int _ | .ref _ _, .str _ | .ref _ _, .bytes _ | .ref _ _, .nint _ => some false
  | .none, .ref _ _ | .int _, .ref _ _ | .str _, .ref _ _ | .bytes _, .ref _ _ | .nint _, .ref _ _ => some false
  | .nint a, .nint b => some (a == b)
  | .nint _, .none | .nint _, .int _ | .nint _, .str _ | .nint _, .bytes _ => some false
  | .none, .nint _ | .int _, .nint _ | .str _, .nint _ | .bytes _, .nint _ => some false
  -- [dil] end
  | _, _ => none

def pyEq (a b : Val) : Res Bool :=
  match scalarEq a b with
  | some r => .ok r
  | none => unsupported

/-- `k in xs` for a list of candidate keys / elements -/
def memKeys (k : Val) : List Val → Res Bool
  | [] => .ok false
  | x :: r => do
    let e ← pyEq x k
    if e then pure true else memKeys k r

/-- `d[k]` / `d.get(k)`: `ok none` = absent -/
def dictGet (k : Val) : List (Val × Val) → Res (Option Val)
  | [] => .ok Option.none
  | (k', v) :: r => do
    let e ← pyEq k' k
    if e then pure (some v) else dictGet k r

/-- `d[k] = v`: an existing key keeps its position, a new key goes last -/
def dictSet (k v : Val) : List (Val × Val) → Res (List (Val × Val))
  | [] => .ok [(k, v)]
  | (k', v') :: r => do
    let e ← pyEq k' k
    if e then pure ((k', v) :: r) else do
      let r' ← dictSet k v r
      pure ((k', v') :: r')

/-- `d.pop(k …)`: the dict without `k` -/
def dictDel (k : Val) : List (Val × Val) → Res (List (Val × Val))
  | [] => .ok []
  | (k', v') :: r => do
    let e ← pyEq k' k
    let r' ← dictDel k r
    if e then pure r' else pure ((k', v') :: r')

/-- hashable = usable as a dict key / set element (scalars; tuples of them are not needed) -/
def Val.hashable : Val → Bool
  | .none | .bool _ | .int _ | .str _ | .bytes _ => true
  -- [dil] begin
  | .ref _ _ | .nint _ => true
  -- [dil] end
  | _ => false

def isInstance (v : Val) (ty : String) : Res Bool :=
  match ty, v with
  | "str", .str _ => .ok true
  | "str", _ => .ok false
  | "bytes", .bytes _ => .ok true
  | "bytes", _ => .ok false
  | "int", .int _ => .ok true
  | "int", .bool _ => .ok true          -- bool is a subclass of int
  -- [dil] begin
  | "int", .nint _ => .ok true
  | "dict", .ref _ _ | "tuple", .ref _ _ | "list", .ref _ _ | "set", .ref _ _ => unsupported
  -- [dil] end
  | "int", _ => .ok false
  | "bool", .bool _ => .ok true
  | "bool", _ => .ok false
  | "dict", .dict _ => .ok true
  | "dict", .obj _ _ => unsupported     -- a foreign object may subclass dict
  | "dict", _ => .ok false
  | "tuple", .tuple _ => .ok true
  | "tuple", .obj _ _ => unsupported
  | "tuple", _ => .ok false
  | "list", .list _ => .ok true
  | "list", .obj _ _ => unsupported
  | "list", _ => .ok false
  | "set", .set _ => .ok true
  | "set", .obj _ _ => unsupported
  | "set", _ => .ok false
  | _, _ => unsupported

/-! ## syntax -/

inductive Expr where
  | none
  | bool (b : Bool)
  | int (n : Nat)
  | str (s : String)
  | bytes (b : List Nat)
  | emptyDict | emptyList | emptySet            -- `{}`, `[]`, `set()`
  | var (x : String)                            -- parameter / local
  | attr (a : String)                           -- `self.<a>`
  | index (a b : Expr)                          -- `a[b]`
  | eq (a b : Expr) | ne (a b : Expr)
  | isIn (a b : Expr) | notIn (a b : Expr)      -- `a in b`, `a not in b`
  | lt (a b : Expr)
  | isNone (a : Expr) | isNotNone (a : Expr)    -- `a is None`, `a is not None`
  | not (a : Expr) | and (a b : Expr) | or (a b : Expr)
  | add (a b : Expr)
  | fmtD (a : Expr)                             -- `"%d" % a`
  | len (a : Expr)
  | isinstance (a : Expr) (ty : String)
  | items (a : Expr)                            -- `a.items()` (as the list of pairs; only as a loop source)
  | tuple (es : List Expr)
  | construct (cls : String) (es : List Expr)   -- `Cls(args…)`
  | call (f : String) (es : List Expr)          -- external function
  -- [dil] begin
  | le (a b : Expr)                             -- `a <= b` (ints of either sign)
  | max2 (a b : Expr)                           -- `max(a, b)`
  | fieldAt (a : Expr) (name : String) (i : Nat)   -- `a.<name>`, the field at position `i` of a namedtuple-like object
  | isinstanceAny (a : Expr) (clss : List String)  -- `isinstance(a, (A, B, …))`, project classes by name
  | applyCls (f : Expr) (es : List Expr) (star : Option Expr)   -- `f(es…, *star)` where the local `f` holds a record class
  | truthOf (a : Expr)                          -- `bool(a)`
  | getD (d k dflt : Expr)                      -- `d.get(k, dflt)`
  | isDisjoint (a b : Expr)                     -- `a.isdisjoint(b)`
  | setUnion (a b : Expr)                       -- `a.union(b)`
  | setEq (a b : Expr)                          -- `set(a) == set(b)` (operands: sets or deques/lists)
  -- [dil] end
  -- [deepConn] begin
  | isConst (a : Expr) (name : String)          -- `a is NAME` for a module-level singleton `NAME = object()`
  | mapExt (f : String) (src : Expr)            -- `[f(x) for x in src]`, `f` external and pure
  -- [deepConn] end
  -- [deepL2] begin
  | slice (a : Expr) (lo hi : Option Expr)      -- `a[lo:hi]` on bytes, bounds are non-negative ints (absent = open)
  | startsWith (a b : Expr)                     -- `a.startswith(b)` on bytes
  | byteIn (x : Nat) (b : Expr)                 -- `b"<x>" in b`: a one-byte needle in a bytes value
  | ge (a b : Expr)                             -- `a >= b` (ints of either sign)
  -- [deepL2] end
  -- [deepMgr] begin
  | gt (a b : Expr)                             -- `a > b` on two ints or two strs (code-point order)
  | dictLit (keys : List String) (vals : List Expr)   -- `{"k1": e1, …}` / the `**kwargs` dict of `f(k1=e1, …)`: constant str keys
  -- [deepMgr] end
  -- [deepRC] begin
  | iterSet (a : Expr)                          -- the elements of a set as the list a `for` visits (only as a loop source)
  -- [deepRC] end
  -- [deepTr] begin
  | sliceT (a : Expr) (lo hi : Option Expr)      -- `a[lo:hi]` on bytes; bounds are non-negative ints or absent
  | startswithT (a b : Expr)                     -- `a.startswith(b)` on bytes
  | geT (a b : Expr)                            -- `a >= b` (ints of either sign)
  -- [deepTr] end
  deriving Inhabited

inductive ForPat where
  | one (x : String)                            -- `for x in …`
  | tup (xs : List String)                      -- `for (a, b, c) in …`
  deriving Inhabited

inductive Stmt where
  | setAttr (a : String) (e : Expr)                       -- `self.<a> = e`
  | assign (x : String) (e : Expr)                        -- `x = e`
  | setItem (a : String) (k v : Expr)                     -- `self.<a>[k] = v`
  | setAdd (a : String) (e : Expr)                        -- `self.<a>.add(e)`
  | append (a : String) (e : Expr)                        -- `self.<a>.append(e)`
  | popDefault (x : Option String) (a : String) (k : Expr)   -- `[x =] self.<a>.pop(k, None)`
  | pop (x : Option String) (a : String) (k : Expr)       -- `[x =] self.<a>.pop(k)`       (KeyError)
  | popleft (x : Option String) (a : String)              -- `[x =] self.<a>.popleft()`    (IndexError)
  | clear (a : String)                                    -- `self.<a>[:] = []`
  | del (x : String)                                      -- `del x`
  | augAttr (a : String) (e : Expr)                       -- `self.<a> += e`
  | augLocal (x : String) (e : Expr)                      -- `x += e`
  | emit (obj meth : String) (args : List Expr)           -- `self.<obj>.<meth>(args…)`: a collaborator held in an attribute
  | emitG (obj meth : String) (args : List Expr)          -- `self.<input>(args…)` (obj = "self": an Automat input of this machine), `log.err(…)` (a module)
  | callSelf (x : Option String) (meth : String) (args : List Expr)   -- `[x =] self.<meth>(args…)`, a plain sibling method
  | assert (e : Expr)
  | ite (c : Expr) (t e : List Stmt)
  | while (c : Expr) (body : List Stmt)
  | forIn (p : ForPat) (src : Expr) (body : List Stmt)
  | tryExcept (body : List Stmt) (cls : String) (x : Option String) (handler : List Stmt)
  | ret (e : Option Expr)
  | raise (cls : String) (args : List Expr)
  | pass
  -- phase 2 (control machines)
  | emitTo (x : String) (obj meth : String) (args : List Expr)     -- `x = self.<obj>.<meth>(args…)`: recorded; the value is `env.rets k`
  | tryExceptAny (body : List Stmt) (clss : List String) (x : Option String) (handler : List Stmt)   -- `except (A, B, …)`
  -- [dil] begin
  | extend (a : String) (e : Expr)                        -- `self.<a>.extend(e)` (deque/list)
  | clearAny (a : String)                                 -- `self.<a>.clear()`
  | setDiscard (a : String) (e : Expr)                    -- `self.<a>.discard(e)`
  | setRemove (a : String) (e : Expr)                     -- `self.<a>.remove(e)` on a set (KeyError)
  | listRemove (a : String) (e : Expr)                    -- `self.<a>.remove(e)` on a deque/list (ValueError)
  | rotateLeft (a : String)                               -- `self.<a>.rotate(-1)`
  | delItem (a : String) (k : Expr)                       -- `del self.<a>[k]` (KeyError)
  | emitA (obj meth : String) (args : List Expr)          -- `self.<obj>.<meth>(args…)`; `None` receiver = AttributeError; may re-enter
  | emitV (recv : Expr) (meth : String) (args : List Expr)   -- `<value>.<meth>(args…)`; recorded with the receiver as first argument; may re-enter
  | whileBC (c : Expr) (body : List Stmt)                 -- a `while` whose body contains `break`/`continue`
  | forInBC (p : ForPat) (src : Expr) (body : List Stmt)  -- a `for` whose body contains `break`/`continue`
  | brk
  | cont
  -- [dil] end
  -- [deepConn] begin
  | forInS (p : ForPat) (src : Expr) (body : List Stmt)   -- `for p in src:` where `src` may be a set (any order: see header)
  | emitVT (x : String) (recv : Expr) (meth : String) (args : List Expr)   -- `x = <value>.<meth>(args…)`: recorded like `emitV`; value `env.rets k`
  | appendLocal (x : String) (e : Expr)                   -- `x.append(e)` on a local list
  | emitGT (x : String) (f : String) (args : List Expr)   -- `x = f(args…)`, an effectful module-level function: recorded; value `env.rets k`
  -- [deepConn] end
  -- [deepL2] begin
  | emitToA (x : String) (obj meth : String) (args : List Expr)   -- `x = self.<obj>.<meth>(args…)`: recorded; value or exception = `env.retf k obj meth args`
  -- [deepL2] end
  -- [deepMgr] begin
  | setItemL (x : String) (k v : Expr)                    -- `<local>[k] = v` on a local that holds a dict
  -- [deepMgr] end
  -- [deepRC] begin
  | tryCatchAll (body : List Stmt) (x : Option String) (handler : List Stmt)   -- `try: … except Exception [as x]: …`; a bare `raise` in the handler is `.raise "$reraise" []`
  | setItemLK (x : String) (k v : Expr)                    -- `<local>[k] = v` (the local holds a dict, e.g. `**kwargs`)
  | setAddL (x : String) (e : Expr)                       -- `<local>.add(e)` (the local holds a set)
  | popLast (x : Option String) (a : String)              -- `[x =] self.<a>.pop()` on a list (IndexError)
  -- [deepRC] end
  -- [deepSub] begin
  | delAttr (a : String)                                  -- `del self.<a>` (AttributeError when there is no such attribute)
  | appendAtD (a : String) (k v : Expr)                   -- `self.<a>[k].append(v)` on a `defaultdict(deque)`: a missing key is created (last) first
  | emitVTo (x : String) (recv : Expr) (meth : String) (args : List Expr)   -- `x = <value>.<meth>(args…)`: recorded like `emitV`; the value is `env.rets k`
  | popleftLocal (p : ForPat) (x : String)                -- `pat = <local x>.popleft()`: a deque held in a local (IndexError when empty)
  -- [deepSub] end
  -- [deepTr] begin
  | tryCatchAllT (body : List Stmt) (x : Option String) (handler : List Stmt)   -- `try: … except Exception [as x]: …`
  | raiseVT (e : Expr)                                     -- `raise <value>`: bare `raise` inside `except Exception as x:` (as `raiseVT (var x)`), `raise self.state`
  | emitToFT (x : String) (obj meth : String) (args : List Expr)   -- `x = self.<obj>.<meth>(args…)`: recorded; the value is `env.retOfT obj meth args`
  -- [deepTr] end
  deriving Inhabited

/-! ## state -/

abbrev Store := List (String × Val)

def Store.get : Store → String → Option Val
  | [], _ => Option.none
  | (k, v) :: r, x => if k = x then some v else Store.get r x

def Store.set : Store → String → Val → Store
  | [], x, v => [(x, v)]
  | (k, w) :: r, x, v => if k = x then (k, v) :: r else (k, w) :: Store.set r x v

def Store.del : Store → String → Store
  | [], _ => []
  | (k, w) :: r, x => if k = x then r else (k, w) :: Store.del r x

structure Call where
  obj : String
  meth : String
  args : List Val
  deriving Inhabited

structure St where
  heap : Store            -- attributes of `self`
  locals : Store
  calls : List Call       -- collaborator calls made so far, oldest first
  deriving Inhabited

inductive Flow where
  | norm
  | ret (v : Val)
  | exc (cls : String)
  deriving Inhabited

/-- the environment of a run: meaning of the external functions, of `"%d" %`, and which collaborator calls fail -/
structure Env where
  ext : String → List Val → Res Val
  fmtD : Nat → String
  raises : Nat → Option String      -- the k-th recorded call (0-based) raises this class after being recorded
  rets : Nat → Val := fun _ => .none   -- what the k-th recorded call returns (only read by `emitTo`)
  -- [dil] begin
  reenter : Nat → List (String × List Val) := fun _ => []   -- sibling methods the k-th recorded call (emitA/emitV) calls back on `self` before it returns
  -- [dil] end
  -- [deepL2] begin
  retf : Nat → String → String → List Val → Res Val := fun _ _ _ _ => .ok .none   -- what the k-th recorded call (`emitToA`) returns or raises, as a function of receiver, method and evaluated arguments
  -- [deepL2] end
  -- [deepTr] begin
  retOfT : String → String → List Val → Val := fun _ _ _ => .none   -- what a recorded call returns, as a function of receiver attribute, method, arguments (only read by `emitToFT`)
  -- [deepTr] end

abbrev MethodTable := String → Option (List String × List Stmt)

/-- semantics of `self.<meth>(args)` for a plain sibling method, handed to the statement interpreter -/
abbrev SelfCall := String → List Val → Store → List Call → Store × List Call × Res Val

/-! ## expressions -/

def readVar (σ : St) (x : String) : Res Val :=
  match σ.locals.get x with
  | some v => .ok v
  | Option.none => .exc "UnboundLocalError"

def readAttr (σ : St) (a : String) : Res Val :=
  match σ.heap.get a with
  | some v => .ok v
  | Option.none => .exc "AttributeError"

def valIn (k c : Val) : Res Bool :=
  match c with
  | .dict kvs => if k.hashable then (do let r ← dictGet k kvs; pure r.isSome) else .exc "TypeError"
  | .set vs => if k.hashable then memKeys k vs else .exc "TypeError"
  | .list vs => memKeys k vs
  | .tuple vs => memKeys k vs
  | .none | .bool _ | .int _ => .exc "TypeError"
  | _ => unsupported

def valAdd (a b : Val) : Res Val :=
  match a, b with
  | .int x, .int y => .ok (.int (x + y))
  | .str x, .str y => .ok (.str (x ++ y))
  | .bytes x, .bytes y => .ok (.bytes (x ++ y))
  | .list x, .list y => .ok (.list (x ++ y))
  | .tuple x, .tuple y => .ok (.tuple (x ++ y))
  | _, _ => unsupported

def valLen : Val → Res Val
  | .str s => .ok (.int s.length)
  | .bytes b => .ok (.int b.length)
  | .tuple vs | .list vs | .set vs => .ok (.int vs.length)
  | .dict kvs => .ok (.int kvs.length)
  | .none | .bool _ | .int _ => .exc "TypeError"
  | .obj _ _ => unsupported
  -- [dil] begin
  | .ref _ _ => unsupported
  | .nint _ => .exc "TypeError"
  -- [dil] end

def valIndex (a b : Val) : Res Val :=
  match a with
  | .dict kvs =>
    if b.hashable then (do
      let r ← dictGet b kvs
      match r with
      | some v => pure v
      | Option.none => .exc "KeyError")
    else .exc "TypeError"
  | .tuple vs | .list vs =>
    match b with
    | .int i => match vs[i]? with
      | some v => .ok v
      | Option.none => .exc "IndexError"
    | _ => unsupported
  | .none | .bool _ | .int _ => .exc "TypeError"
  | _ => unsupported

def valItems : Val → Res Val
  | .dict kvs => .ok (.list (kvs.map (fun kv => .tuple [kv.1, kv.2])))
  | .none => .exc "AttributeError"
  | _ => unsupported

-- [dil] begin
def Val.toInt? : Val → Option Int
  | .int n => some (Int.ofNat n)
  | .nint n => some (Int.negSucc n)
  | _ => Option.none

def Val.ofInt : Int → Val
  | .ofNat n => .int n
  | .negSucc n => .nint n

/-- `a <= b` on ints of either sign -/
def valLe (a b : Val) : Res Bool :=
  match a.toInt?, b.toInt? with
  | some x, some y => .ok (decide (x ≤ y))
  | _, _ => unsupported

/-- `max(a, b)` on ints of either sign -/
def valMax (a b : Val) : Res Val :=
  match a.toInt?, b.toInt? with
  | some x, some y => .ok (Val.ofInt (if x ≤ y then y else x))
  | _, _ => unsupported

/-- `e.<name>` for a namedtuple-like object whose field `name` sits at position `i` -/
def valField (v : Val) (i : Nat) : Res Val :=
  match v with
  | .obj _ fs => match fs[i]? with
    | some x => .ok x
    | Option.none => .exc "AttributeError"
  | .none | .bool _ | .int _ | .str _ | .bytes _ | .nint _ => .exc "AttributeError"
  | _ => unsupported

/-- `isinstance(v, (A, B, …))` for classes of the project, by name -/
def isInstanceAny (v : Val) (clss : List String) : Res Bool :=
  match v with
  | .obj c _ | .ref c _ => .ok (clss.contains c)
  | .none | .bool _ | .int _ | .str _ | .bytes _ | .nint _ => .ok false
  | _ => unsupported

/-- the elements of a set / deque / list operand of a set operation -/
def setElems : Val → Res (List Val)
  | .set vs | .list vs => .ok vs
  | .none | .bool _ | .int _ | .nint _ => .exc "TypeError"
  | _ => unsupported

/-- all elements equal to `k` removed (`set.discard`) -/
def setDel (k : Val) : List Val → Res (List Val)
  | [] => .ok []
  | x :: r => do
    let e ← pyEq x k
    let r' ← setDel k r
    if e then pure r' else pure (x :: r')

/-- `deque.remove(k)`: the first element equal to `k` removed; `none` = there is none (ValueError) -/
def listRemove1 (k : Val) : List Val → Res (Option (List Val))
  | [] => .ok Option.none
  | x :: r => do
    let e ← pyEq x k
    if e then pure (some r) else do
      let r' ← listRemove1 k r
      pure (r'.map (x :: ·))

/-- no element of `a` is in `b` -/
def allNotIn (b : List Val) : List Val → Res Bool
  | [] => .ok true
  | x :: r => do
    let m ← memKeys x b
    if m then pure false else allNotIn b r

/-- every element of `a` is in `b` -/
def allIn (b : List Val) : List Val → Res Bool
  | [] => .ok true
  | x :: r => do
    let m ← memKeys x b
    if m then allIn b r else pure false

/-- the elements of `b` that are not in `a` -/
def notInOf (a : List Val) : List Val → Res (List Val)
  | [] => .ok []
  | x :: r => do
    let m ← memKeys x a
    let r' ← notInOf a r
    if m then pure r' else pure (x :: r')

def allHashable (vs : List Val) : Bool := vs.all Val.hashable

/-- the elements of `*args` -/
def starElems : Val → Res (List Val)
  | .list vs | .tuple vs => .ok vs
  | _ => unsupported

/-- `d.get(k, dflt)` -/
def valGetD (d k dflt : Val) : Res Val :=
  match d with
  | .dict kvs =>
    if k.hashable then (do
      let r ← dictGet k kvs
      match r with
      | some v => pure v
      | Option.none => pure dflt)
    else .exc "TypeError"
  | .none | .bool _ | .int _ | .nint _ => .exc "AttributeError"
  | _ => unsupported
-- [dil] end

-- [deepConn] begin
/-- `v is NAME` for a module-level singleton, represented as `Val.obj NAME []` -/
def valIsConst (v : Val) (name : String) : Res Bool :=
  match v with
  | .obj c [] => .ok (c == name)
  | .none | .bool _ | .int _ | .str _ | .bytes _ | .nint _ | .ref _ _ => .ok false
  | _ => unsupported

/-- `[f(x) for x in vs]` -/
def mapExtL (ext : String → List Val → Res Val) (f : String) : List Val → Res (List Val)
  | [] => .ok []
  | v :: r => do
    let w ← ext f [v]
    let ws ← mapExtL ext f r
    pure (w :: ws)

/-- the elements a `for` loop over a list, tuple or set visits -/
def iterElemsS : Val → Res (List Val)
  | .list vs | .tuple vs | .set vs => .ok vs
  | .none | .bool _ | .int _ => .exc "TypeError"
  | _ => unsupported
-- [deepConn] end

-- [deepL2] begin
/-- `b[lo:hi]` on bytes with non-negative bounds: CPython clamps both to `len(b)`; `hi < lo` gives `b""` -/
def valSlice (v : Val) (lo hi : Option Val) : Res Val :=
  match v, lo, hi with
  | .bytes b, Option.none, Option.none => .ok (.bytes b)
  | .bytes b, some (.int l), Option.none => .ok (.bytes (b.drop l))
  | .bytes b, Option.none, some (.int h) => .ok (.bytes (b.take h))
  | .bytes b, some (.int l), some (.int h) => .ok (.bytes ((b.take h).drop l))
  | .none, _, _ | .bool _, _, _ | .int _, _, _ => .exc "TypeError"
  | _, _, _ => unsupported

/-- `a.startswith(b)` on bytes -/
def valStartsWith (a b : Val) : Res Val :=
  match a, b with
  | .bytes x, .bytes y => .ok (.bool (y.isPrefixOf x))
  | .none, _ | .bool _, _ | .int _, _ => .exc "AttributeError"
  | _, _ => unsupported

/-- `b"<x>" in v` -/
def valByteIn (x : Nat) (v : Val) : Res Val :=
  match v with
  | .bytes b => .ok (.bool (b.contains x))
  | .none | .bool _ | .int _ => .exc "TypeError"
  | _ => unsupported
-- [deepL2] end

-- [deepMgr] begin
/-- `a > b`: two ints, or two strs compared by code points (Lean's `String` order is that order) -/
def valGt (a b : Val) : Res Bool :=
  match a, b with
  | .int x, .int y => .ok (decide (y < x))
  | .str x, .str y => .ok (decide (y < x))
  | _, _ => unsupported

/-- the dict of a literal with constant str keys (the translator refuses duplicate keys) -/
def mkDictLit (ks : List String) (vs : List Val) : Res Val :=
  if ks.length = vs.length then .ok (.dict ((ks.map Val.str).zip vs)) else unsupported
-- [deepMgr] end

-- [deepTr] begin
/-- `a[lo:hi]` on bytes with non-negative bounds: `b[lo:hi] = (b.take hi).drop lo` -/
def valSliceT (a : Val) (lo hi : Option Val) : Res Val :=
  match a with
  | .bytes b =>
    match lo, hi with
    | Option.none, Option.none => .ok (.bytes b)
    | some (.int l), Option.none => .ok (.bytes (b.drop l))
    | Option.none, some (.int h) => .ok (.bytes (b.take h))
    | some (.int l), some (.int h) => .ok (.bytes ((b.take h).drop l))
    | _, _ => unsupported
  | .none | .bool _ | .int _ | .nint _ => .exc "TypeError"
  | _ => unsupported

/-- `a.startswith(b)` on bytes -/
def valStartswithT (a b : Val) : Res Val :=
  match a, b with
  | .bytes x, .bytes y => .ok (.bool (y.isPrefixOf x))
  | .none, _ => .exc "AttributeError"
  | _, _ => unsupported

/-- the pseudo-exceptions of the interpreter are not Python exceptions: no `except` clause catches them -/
def isPseudoExcT (c : String) : Bool :=
  c == "Unsupported" || c == "OutOfFuel" || c == "$break" || c == "$continue"
-- [deepTr] end

mutual
def evalE (env : Env) (σ : St) : Expr → Res Val
  | .none => .ok .none
  | .bool b => .ok (.bool b)
  | .int n => .ok (.int n)
  | .str s => .ok (.str s)
  | .bytes b => .ok (.bytes b)
  | .emptyDict => .ok (.dict [])
  | .emptyList => .ok (.list [])
  | .emptySet => .ok (.set [])
  | .var x => readVar σ x
  | .attr a => readAttr σ a
  | .index a b => do
    let va ← evalE env σ a
    let vb ← evalE env σ b
    valIndex va vb
  | .eq a b => do
    let va ← evalE env σ a
    let vb ← evalE env σ b
    let r ← pyEq va vb
    pure (.bool r)
  | .ne a b => do
    let va ← evalE env σ a
    let vb ← evalE env σ b
    let r ← pyEq va vb
    pure (.bool (!r))
  | .isIn a b => do
    let va ← evalE env σ a
    let vb ← evalE env σ b
    let r ← valIn va vb
    pure (.bool r)
  | .notIn a b => do
    let va ← evalE env σ a
    let vb ← evalE env σ b
    let r ← valIn va vb
    pure (.bool (!r))
  | .lt a b => do
    let va ← evalE env σ a
    let vb ← evalE env σ b
    match va, vb with
    | .int x, .int y => pure (.bool (decide (x < y)))
    | _, _ => unsupported
  | .isNone a => do
    let va ← evalE env σ a
    match va with
    | .none => pure (.bool true)
    | _ => pure (.bool false)
  | .isNotNone a => do
    let va ← evalE env σ a
    match va with
    | .none => pure (.bool false)
    | _ => pure (.bool true)
  | .not a => do
    let va ← evalE env σ a
    pure (.bool (!va.truthy))
  | .and a b => do
    let va ← evalE env σ a
    if va.truthy then evalE env σ b else pure va
  | .or a b => do
    let va ← evalE env σ a
    if va.truthy then pure va else evalE env σ b
  | .add a b => do
    let va ← evalE env σ a
    let vb ← evalE env σ b
    valAdd va vb
  | .fmtD a => do
    let va ← evalE env σ a
    match va with
    | .int n => pure (.str (env.fmtD n))
    | .none | .str _ | .bytes _ => .exc "TypeError"
    | _ => unsupported
  | .len a => do
    let va ← evalE env σ a
    valLen va
  | .isinstance a ty => do
    let va ← evalE env σ a
    let r ← isInstance va ty
    pure (.bool r)
  | .items a => do
    let va ← evalE env σ a
    valItems va
  | .tuple es => do
    let vs ← evalEs env σ es
    pure (.tuple vs)
  | .construct cls es => do
    let vs ← evalEs env σ es
    pure (.obj cls vs)
  | .call f es => do
    let vs ← evalEs env σ es
    env.ext f vs
  -- [dil] begin
  | .le a b => do
    let va ← evalE env σ a
    let vb ← evalE env σ b
    let r ← valLe va vb
    pure (.bool r)
  | .max2 a b => do
    let va ← evalE env σ a
    let vb ← evalE env σ b
    valMax va vb
  | .fieldAt a _ i => do
    let va ← evalE env σ a
    valField va i
  | .isinstanceAny a clss => do
    let va ← evalE env σ a
    let r ← isInstanceAny va clss
    pure (.bool r)
  | .applyCls f es star => do
    let vf ← evalE env σ f
    let vs ← evalEs env σ es
    let extra ← (match star with
      | Option.none => Res.ok []
      | some e => do
        let ve ← evalE env σ e
        starElems ve)
    match vf with
    | .obj "type" [.str cls] => pure (.obj cls (vs ++ extra))
    | _ => unsupported
  | .truthOf a => do
    let va ← evalE env σ a
    pure (.bool va.truthy)
  | .getD d k dflt => do
    let vd ← evalE env σ d
    let vk ← evalE env σ k
    let vdf ← evalE env σ dflt
    valGetD vd vk vdf
  | .isDisjoint a b => do
    let va ← evalE env σ a
    let vb ← evalE env σ b
    let xs ← setElems va
    let ys ← setElems vb
    if allHashable xs && allHashable ys then (do
      let r ← allNotIn ys xs
      pure (.bool r))
    else .exc "TypeError"
  | .setUnion a b => do
    let va ← evalE env σ a
    let vb ← evalE env σ b
    match va with
    | .set xs => do
      let ys ← setElems vb
      if allHashable ys then (do
        let extra ← notInOf xs ys
        pure (.set (xs ++ extra)))
      else .exc "TypeError"
    | _ => unsupported
  | .setEq a b => do
    let va ← evalE env σ a
    let vb ← evalE env σ b
    let xs ← setElems va
    let ys ← setElems vb
    if allHashable xs && allHashable ys then (do
      let r1 ← allIn ys xs
      let r2 ← allIn xs ys
      pure (.bool (r1 && r2)))
    else .exc "TypeError"
  -- [dil] end
  -- [deepConn] begin
  | .isConst a name => do
    let va ← evalE env σ a
    let r ← valIsConst va name
    pure (.bool r)
  | .mapExt f src => do
    let v ← evalE env σ src
    let vs ← starElems v
    let ws ← mapExtL env.ext f vs
    pure (.list ws)
  -- [deepConn] end
  -- [deepL2] begin
  | .slice a lo hi => do
    let va ← evalE env σ a
    let vl ← (match lo with
      | Option.none => Res.ok Option.none
      | some e => do
        let v ← evalE env σ e
        pure (some v))
    let vh ← (match hi with
      | Option.none => Res.ok Option.none
      | some e => do
        let v ← evalE env σ e
        pure (some v))
    valSlice va vl vh
  | .startsWith a b => do
    let va ← evalE env σ a
    let vb ← evalE env σ b
    valStartsWith va vb
  | .byteIn x b => do
    let vb ← evalE env σ b
    valByteIn x vb
  | .ge a b => do
    let va ← evalE env σ a
    let vb ← evalE env σ b
    let r ← valLe vb va
    pure (.bool r)
  -- [deepL2] end
  -- [deepMgr] begin
  | .gt a b => do
    let va ← evalE env σ a
    let vb ← evalE env σ b
    let r ← valGt va vb
    pure (.bool r)
  | .dictLit ks es => do
    let vs ← evalEs env σ es
    mkDictLit ks vs
  -- [deepMgr] end
  -- [deepRC] begin
  | .iterSet a => do
    let va ← evalE env σ a
    match va with
    | .set vs | .list vs | .tuple vs => pure (.list vs)
    | .none | .bool _ | .int _ => .exc "TypeError"
    | _ => unsupported
  -- [deepRC] end
  -- [deepTr] begin
  | .sliceT a lo hi => do
    let va ← evalE env σ a
    let vlo ← (match lo with
      | Option.none => Res.ok Option.none
      | some e => do
        let v ← evalE env σ e
        pure (some v))
    let vhi ← (match hi with
      | Option.none => Res.ok Option.none
      | some e => do
        let v ← evalE env σ e
        pure (some v))
    valSliceT va vlo vhi
  | .startswithT a b => do
    let va ← evalE env σ a
    let vb ← evalE env σ b
    valStartswithT va vb
  | .geT a b => do
    let va ← evalE env σ a
    let vb ← evalE env σ b
    let r ← valLe vb va
    pure (.bool r)
  -- [deepTr] end
def evalEs (env : Env) (σ : St) : List Expr → Res (List Val)
  | [] => .ok []
  | e :: r => do
    let v ← evalE env σ e
    let vs ← evalEs env σ r
    pure (v :: vs)
end

/-! ## statements -/

def St.setLocal (σ : St) (x : String) (v : Val) : St := { σ with locals := σ.locals.set x v }
def St.setAttr (σ : St) (a : String) (v : Val) : St := { σ with heap := σ.heap.set a v }

def St.bindOpt (σ : St) : Option String → Val → St
  | Option.none, _ => σ
  | some x, v => σ.setLocal x v

/-- bind a loop / unpacking pattern -/
def bindPat (σ : St) : ForPat → Val → Res St
  | .one x, v => .ok (σ.setLocal x v)
  | .tup xs, v =>
    match v with
    | .tuple vs | .list vs =>
      if xs.length = vs.length then
        .ok ((xs.zip vs).foldl (fun s xv => s.setLocal xv.1 xv.2) σ)
      else .exc "ValueError"
    | .none | .bool _ | .int _ => .exc "TypeError"
    | _ => unsupported

/-- the elements a `for` loop visits -/
def iterElems : Val → Res (List Val)
  | .list vs | .tuple vs => .ok vs
  | .none | .bool _ | .int _ => .exc "TypeError"
  | _ => unsupported

/-- run `k` unless the statement before it left the normal flow -/
@[inline] def andThen (r : St × Flow) (k : St → St × Flow) : St × Flow :=
  match r with
  | (σ, .norm) => k σ
  | (σ, f) => (σ, f)

/-- evaluate, or leave with the exception -/
@[inline] def withVal {α : Type} (σ : St) (r : Res α) (k : α → St × Flow) : St × Flow :=
  match r with
  | .ok a => k a
  | .exc c => (σ, .exc c)

def whileLoop (cond : St → Res Val) (body : St → St × Flow) : Nat → St → St × Flow
  | 0, σ => (σ, .exc "OutOfFuel")
  | fuel + 1, σ =>
    withVal σ (cond σ) fun c =>
      if c.truthy then andThen (body σ) (whileLoop cond body fuel) else (σ, .norm)

def forLoop (p : ForPat) (body : St → St × Flow) : List Val → St → St × Flow
  | [], σ => (σ, .norm)
  | v :: r, σ =>
    withVal σ (bindPat σ p v) fun σ1 => andThen (body σ1) (forLoop p body r)

/-- record a collaborator call; `env.raises` decides whether it fails -/
def doEmit (env : Env) (σ : St) (obj meth : String) (vs : List Val) : St × Flow :=
  let σ1 := { σ with calls := σ.calls ++ [{ obj := obj, meth := meth, args := vs }] }
  match env.raises σ.calls.length with
  | Option.none => (σ1, .norm)
  | some c => (σ1, .exc c)

-- [dil] begin
def whileLoopBC (cond : St → Res Val) (body : St → St × Flow) : Nat → St → St × Flow
  | 0, σ => (σ, .exc "OutOfFuel")
  | fuel + 1, σ =>
    withVal σ (cond σ) fun c =>
      if c.truthy then
        match body σ with
        | (σ1, .norm) => whileLoopBC cond body fuel σ1
        | (σ1, .exc x) =>
          if x = "$break" then (σ1, .norm)
          else if x = "$continue" then whileLoopBC cond body fuel σ1
          else (σ1, .exc x)
        | r => r
      else (σ, .norm)

def forLoopBC (p : ForPat) (body : St → St × Flow) : List Val → St → St × Flow
  | [], σ => (σ, .norm)
  | v :: r, σ =>
    withVal σ (bindPat σ p v) fun σ1 =>
      match body σ1 with
      | (σ2, .norm) => forLoopBC p body r σ2
      | (σ2, .exc x) =>
        if x = "$break" then (σ2, .norm)
        else if x = "$continue" then forLoopBC p body r σ2
        else (σ2, .exc x)
      | res => res

/-- the callbacks a recorded call makes on `self` before it returns -/
def runReenter (self : SelfCall) : List (String × List Val) → St → St × Flow
  | [], σ => (σ, .norm)
  | (m, args) :: r, σ =>
    match self m args σ.heap σ.calls with
    | (h, cs, .ok _) => runReenter self r { σ with heap := h, calls := cs }
    | (h, cs, .exc c) => ({ σ with heap := h, calls := cs }, .exc c)

def doEmitR (env : Env) (self : SelfCall) (σ : St) (obj meth : String) (vs : List Val) : St × Flow :=
  match doEmit env σ obj meth vs with
  | (σ1, .norm) => runReenter self (env.reenter σ.calls.length) σ1
  | r => r
-- [dil] end

-- [deepRC] begin
/-- exception names that are artefacts of the interpreter, not Python exceptions: `except Exception` never catches them -/
def isPseudoExc (c : String) : Bool :=
  c == "Unsupported" || c == "OutOfFuel" || c == "$break" || c == "$continue" || c == "$reraise"

/-- what leaves a handler of `tryCatchAll` that was entered for exception `c`: a bare `raise` re-raises `c` -/
def reraiseAs (c : String) (r : St × Flow) : St × Flow :=
  match r with
  | (σ, .exc c2) => if c2 = "$reraise" then (σ, .exc c) else (σ, .exc c2)
  | r => r
-- [deepRC] end

mutual
def execS (env : Env) (self : SelfCall) (fuel : Nat) : Stmt → St → St × Flow
  | .setAttr a e, σ => withVal σ (evalE env σ e) fun v => (σ.setAttr a v, .norm)
  | .assign x e, σ => withVal σ (evalE env σ e) fun v => (σ.setLocal x v, .norm)
  | .setItem a k v, σ =>
    -- CPython evaluates the right-hand side first, then the container, then the key
    withVal σ (evalE env σ v) fun vv =>
    withVal σ (readAttr σ a) fun d =>
    withVal σ (evalE env σ k) fun vk =>
      match d with
      | .dict kvs =>
        if vk.hashable then withVal σ (dictSet vk vv kvs) fun kvs' => (σ.setAttr a (.dict kvs'), .norm)
        else (σ, .exc "TypeError")
      | .none | .bool _ | .int _ => (σ, .exc "TypeError")
      | _ => (σ, .exc "Unsupported")
  | .setAdd a e, σ =>
    withVal σ (readAttr σ a) fun d =>
    withVal σ (evalE env σ e) fun v =>
      match d with
      | .set vs =>
        if v.hashable then withVal σ (memKeys v vs) fun m =>
          (σ.setAttr a (.set (if m then vs else vs ++ [v])), .norm)
        else (σ, .exc "TypeError")
      | .none | .bool _ | .int _ => (σ, .exc "AttributeError")
      | _ => (σ, .exc "Unsupported")
  | .append a e, σ =>
    withVal σ (readAttr σ a) fun d =>
    withVal σ (evalE env σ e) fun v =>
      match d with
      | .list vs => (σ.setAttr a (.list (vs ++ [v])), .norm)
      | .none | .bool _ | .int _ => (σ, .exc "AttributeError")
      | _ => (σ, .exc "Unsupported")
  | .popDefault x a k, σ =>
    withVal σ (readAttr σ a) fun d =>
    withVal σ (evalE env σ k) fun vk =>
      match d with
      | .dict kvs =>
        if vk.hashable then
          withVal σ (dictGet vk kvs) fun r =>
          withVal σ (dictDel vk kvs) fun kvs' =>
            ((σ.setAttr a (.dict kvs')).bindOpt x (r.getD .none), .norm)
        else (σ, .exc "TypeError")
      | .none | .bool _ | .int _ => (σ, .exc "AttributeError")
      | _ => (σ, .exc "Unsupported")
  | .pop x a k, σ =>
    withVal σ (readAttr σ a) fun d =>
    withVal σ (evalE env σ k) fun vk =>
      match d with
      | .dict kvs =>
        if vk.hashable then
          withVal σ (dictGet vk kvs) fun r =>
            match r with
            | Option.none => (σ, .exc "KeyError")
            | some v => withVal σ (dictDel vk kvs) fun kvs' => ((σ.setAttr a (.dict kvs')).bindOpt x v, .norm)
        else (σ, .exc "TypeError")
      | .none | .bool _ | .int _ => (σ, .exc "AttributeError")
      | _ => (σ, .exc "Unsupported")
  | .popleft x a, σ =>
    withVal σ (readAttr σ a) fun d =>
      match d with
      | .list [] => (σ, .exc "IndexError")
      | .list (v :: r) => ((σ.setAttr a (.list r)).bindOpt x v, .norm)
      | .none | .bool _ | .int _ => (σ, .exc "AttributeError")
      | _ => (σ, .exc "Unsupported")
  | .clear a, σ =>
    withVal σ (readAttr σ a) fun d =>
      match d with
      | .list _ => (σ.setAttr a (.list []), .norm)
      | .none | .bool _ | .int _ => (σ, .exc "TypeError")
      | _ => (σ, .exc "Unsupported")
  | .del x, σ =>
    match σ.locals.get x with
    | some _ => ({ σ with locals := σ.locals.del x }, .norm)
    | Option.none => (σ, .exc "UnboundLocalError")
  | .augAttr a e, σ =>
    withVal σ (readAttr σ a) fun old =>
    withVal σ (evalE env σ e) fun v =>
    withVal σ (valAdd old v) fun new => (σ.setAttr a new, .norm)
  | .augLocal x e, σ =>
    withVal σ (readVar σ x) fun old =>
    withVal σ (evalE env σ e) fun v =>
    withVal σ (valAdd old v) fun new => (σ.setLocal x new, .norm)
  | .emit obj meth args, σ =>
    -- Python looks up `self.<obj>` before it evaluates the arguments
    withVal σ (readAttr σ obj) fun _ =>
    withVal σ (evalEs env σ args) fun vs => doEmit env σ obj meth vs
  | .emitG obj meth args, σ =>
    withVal σ (evalEs env σ args) fun vs => doEmit env σ obj meth vs
  | .callSelf x meth args, σ =>
    withVal σ (evalEs env σ args) fun vs =>
      match self meth vs σ.heap σ.calls with
      | (h, cs, .ok v) => (({ σ with heap := h, calls := cs }).bindOpt x v, .norm)
      | (h, cs, .exc c) => ({ σ with heap := h, calls := cs }, .exc c)
  | .assert e, σ =>
    withVal σ (evalE env σ e) fun v => if v.truthy then (σ, .norm) else (σ, .exc "AssertionError")
  | .ite c t e, σ =>
    withVal σ (evalE env σ c) fun v => if v.truthy then execB env self fuel t σ else execB env self fuel e σ
  | .while c body, σ => whileLoop (fun s => evalE env s c) (execB env self fuel body) fuel σ
  | .forIn p src body, σ =>
    withVal σ (evalE env σ src) fun v =>
    withVal σ (iterElems v) fun vs => forLoop p (execB env self fuel body) vs σ
  | .tryExcept body cls x handler, σ =>
    match execB env self fuel body σ with
    | (σ1, .exc c) =>
      if c = cls then execB env self fuel handler (σ1.bindOpt x (.obj c [])) else (σ1, .exc c)
    | r => r
  | .ret Option.none, σ => (σ, .ret .none)
  | .ret (some e), σ => withVal σ (evalE env σ e) fun v => (σ, .ret v)
  | .raise cls args, σ => withVal σ (evalEs env σ args) fun _ => (σ, .exc cls)
  | .pass, σ => (σ, .norm)
  | .emitTo x obj meth args, σ =>
    withVal σ (readAttr σ obj) fun _ =>
    withVal σ (evalEs env σ args) fun vs =>
      match doEmit env σ obj meth vs with
      | (σ1, .norm) => (σ1.setLocal x (env.rets σ.calls.length), .norm)
      | r => r
  | .tryExceptAny body clss x handler, σ =>
    match execB env self fuel body σ with
    | (σ1, .exc c) =>
      if clss.contains c then execB env self fuel handler (σ1.bindOpt x (.obj c [])) else (σ1, .exc c)
    | r => r
  -- [dil] begin
  | .extend a e, σ =>
    withVal σ (readAttr σ a) fun d =>
    withVal σ (evalE env σ e) fun v =>
      match d with
      | .list vs => withVal σ (iterElems v) fun ws => (σ.setAttr a (.list (vs ++ ws)), .norm)
      | .none | .bool _ | .int _ => (σ, .exc "AttributeError")
      | _ => (σ, .exc "Unsupported")
  | .clearAny a, σ =>
    withVal σ (readAttr σ a) fun d =>
      match d with
      | .list _ => (σ.setAttr a (.list []), .norm)
      | .set _ => (σ.setAttr a (.set []), .norm)
      | .dict _ => (σ.setAttr a (.dict []), .norm)
      | .none | .bool _ | .int _ => (σ, .exc "AttributeError")
      | _ => (σ, .exc "Unsupported")
  | .setDiscard a e, σ =>
    withVal σ (readAttr σ a) fun d =>
    withVal σ (evalE env σ e) fun v =>
      match d with
      | .set vs =>
        if v.hashable then withVal σ (setDel v vs) fun vs' => (σ.setAttr a (.set vs'), .norm)
        else (σ, .exc "TypeError")
      | .none | .bool _ | .int _ => (σ, .exc "AttributeError")
      | _ => (σ, .exc "Unsupported")
  | .setRemove a e, σ =>
    withVal σ (readAttr σ a) fun d =>
    withVal σ (evalE env σ e) fun v =>
      match d with
      | .set vs =>
        if v.hashable then
          withVal σ (memKeys v vs) fun m =>
            if m then withVal σ (setDel v vs) fun vs' => (σ.setAttr a (.set vs'), .norm)
            else (σ, .exc "KeyError")
        else (σ, .exc "TypeError")
      | .none | .bool _ | .int _ => (σ, .exc "AttributeError")
      | _ => (σ, .exc "Unsupported")
  | .listRemove a e, σ =>
    withVal σ (readAttr σ a) fun d =>
    withVal σ (evalE env σ e) fun v =>
      match d with
      | .list vs =>
        withVal σ (listRemove1 v vs) fun r =>
          match r with
          | some vs' => (σ.setAttr a (.list vs'), .norm)
          | Option.none => (σ, .exc "ValueError")
      | .none | .bool _ | .int _ => (σ, .exc "AttributeError")
      | _ => (σ, .exc "Unsupported")
  | .rotateLeft a, σ =>
    withVal σ (readAttr σ a) fun d =>
      match d with
      | .list [] => (σ, .norm)
      | .list (v :: r) => (σ.setAttr a (.list (r ++ [v])), .norm)
      | .none | .bool _ | .int _ => (σ, .exc "AttributeError")
      | _ => (σ, .exc "Unsupported")
  | .delItem a k, σ =>
    withVal σ (readAttr σ a) fun d =>
    withVal σ (evalE env σ k) fun vk =>
      match d with
      | .dict kvs =>
        if vk.hashable then
          withVal σ (dictGet vk kvs) fun r =>
            match r with
            | Option.none => (σ, .exc "KeyError")
            | some _ => withVal σ (dictDel vk kvs) fun kvs' => (σ.setAttr a (.dict kvs'), .norm)
        else (σ, .exc "TypeError")
      | .none | .bool _ | .int _ => (σ, .exc "TypeError")
      | _ => (σ, .exc "Unsupported")
  | .emitA obj meth args, σ =>
    withVal σ (readAttr σ obj) fun recv =>
      match recv with
      | .none => (σ, .exc "AttributeError")
      | _ => withVal σ (evalEs env σ args) fun vs => doEmitR env self σ obj meth vs
  | .emitV recv meth args, σ =>
    withVal σ (evalE env σ recv) fun rv =>
      match rv with
      | .none => (σ, .exc "AttributeError")
      | _ => withVal σ (evalEs env σ args) fun vs => doEmitR env self σ "$v" meth (rv :: vs)
  | .whileBC c body, σ => whileLoopBC (fun s => evalE env s c) (execB env self fuel body) fuel σ
  | .forInBC p src body, σ =>
    withVal σ (evalE env σ src) fun v =>
    withVal σ (iterElems v) fun vs => forLoopBC p (execB env self fuel body) vs σ
  | .brk, σ => (σ, .exc "$break")
  | .cont, σ => (σ, .exc "$continue")
  -- [dil] end
  -- [deepConn] begin
  | .forInS p src body, σ =>
    withVal σ (evalE env σ src) fun v =>
    withVal σ (iterElemsS v) fun vs => forLoop p (execB env self fuel body) vs σ
  | .emitVT x recv meth args, σ =>
    withVal σ (evalE env σ recv) fun rv =>
      match rv with
      | .none => (σ, .exc "AttributeError")
      | _ => withVal σ (evalEs env σ args) fun vs =>
        match doEmitR env self σ "$v" meth (rv :: vs) with
        | (σ1, .norm) => (σ1.setLocal x (env.rets σ.calls.length), .norm)
        | r => r
  | .appendLocal x e, σ =>
    withVal σ (readVar σ x) fun d =>
    withVal σ (evalE env σ e) fun v =>
      match d with
      | .list vs => (σ.setLocal x (.list (vs ++ [v])), .norm)
      | .none | .bool _ | .int _ => (σ, .exc "AttributeError")
      | _ => (σ, .exc "Unsupported")
  | .emitGT x f args, σ =>
    withVal σ (evalEs env σ args) fun vs =>
      match doEmit env σ "$g" f vs with
      | (σ1, .norm) => (σ1.setLocal x (env.rets σ.calls.length), .norm)
      | r => r
  -- [deepConn] end
  -- [deepL2] begin
  | .emitToA x obj meth args, σ =>
    withVal σ (readAttr σ obj) fun recv =>
      match recv with
      | .none => (σ, .exc "AttributeError")
      | _ => withVal σ (evalEs env σ args) fun vs =>
        match doEmit env σ obj meth vs with
        | (σ1, .norm) =>
          (match env.retf σ.calls.length obj meth vs with
           | .ok v => (σ1.setLocal x v, .norm)
           | .exc c => (σ1, .exc c))
        | r => r
  -- [deepL2] end
  -- [deepMgr] begin
  | .setItemL x k v, σ =>
    -- CPython evaluates the right-hand side first, then the container, then the key
    withVal σ (evalE env σ v) fun vv =>
    withVal σ (readVar σ x) fun d =>
    withVal σ (evalE env σ k) fun vk =>
      match d with
      | .dict kvs =>
        if vk.hashable then withVal σ (dictSet vk vv kvs) fun kvs' => (σ.setLocal x (.dict kvs'), .norm)
        else (σ, .exc "TypeError")
      | .none | .bool _ | .int _ => (σ, .exc "TypeError")
      | _ => (σ, .exc "Unsupported")
  -- [deepMgr] end
  -- [deepRC] begin
  | .tryCatchAll body x handler, σ =>
    match execB env self fuel body σ with
    | (σ1, .exc c) =>
      if isPseudoExc c then (σ1, .exc c)
      else reraiseAs c (execB env self fuel handler (σ1.bindOpt x (.obj c [])))
    | r => r
  | .setItemLK x k v, σ =>
    -- CPython evaluates the right-hand side first, then the container, then the key
    withVal σ (evalE env σ v) fun vv =>
    withVal σ (readVar σ x) fun d =>
    withVal σ (evalE env σ k) fun vk =>
      match d with
      | .dict kvs =>
        if vk.hashable then withVal σ (dictSet vk vv kvs) fun kvs' => (σ.setLocal x (.dict kvs'), .norm)
        else (σ, .exc "TypeError")
      | .none | .bool _ | .int _ => (σ, .exc "TypeError")
      | _ => (σ, .exc "Unsupported")
  | .setAddL x e, σ =>
    withVal σ (readVar σ x) fun d =>
    withVal σ (evalE env σ e) fun v =>
      match d with
      | .set vs =>
        if v.hashable then withVal σ (memKeys v vs) fun m =>
          (σ.setLocal x (.set (if m then vs else vs ++ [v])), .norm)
        else (σ, .exc "TypeError")
      | .none | .bool _ | .int _ => (σ, .exc "AttributeError")
      | _ => (σ, .exc "Unsupported")
  | .popLast x a, σ =>
    withVal σ (readAttr σ a) fun d =>
      match d with
      | .list vs =>
        match vs.getLast? with
        | Option.none => (σ, .exc "IndexError")
        | some v => ((σ.setAttr a (.list vs.dropLast)).bindOpt x v, .norm)
      | .none | .bool _ | .int _ => (σ, .exc "AttributeError")
      | _ => (σ, .exc "Unsupported")
  -- [deepRC] end
  -- [deepSub] begin
  | .delAttr a, σ =>
    match σ.heap.get a with
    | some _ => ({ σ with heap := σ.heap.filter (fun kv => kv.1 != a) }, .norm)   -- every binding of `a` goes
    | Option.none => (σ, .exc "AttributeError")
  | .appendAtD a k v, σ =>
    -- CPython loads `self.<a>[k]` (a missing key gets an empty deque, inserted last) before it evaluates the argument
    withVal σ (readAttr σ a) fun d =>
    withVal σ (evalE env σ k) fun vk =>
      match d with
      | .dict kvs =>
        if vk.hashable then
          withVal σ (dictGet vk kvs) fun r =>
            match r with
            | some (.list l) =>
              withVal σ (evalE env σ v) fun vv =>
              withVal σ (dictSet vk (.list (l ++ [vv])) kvs) fun kvs' => (σ.setAttr a (.dict kvs'), .norm)
            | Option.none =>
              let σ0 := σ.setAttr a (.dict (kvs ++ [(vk, .list [])]))
              withVal σ0 (evalE env σ0 v) fun vv => (σ.setAttr a (.dict (kvs ++ [(vk, .list [vv])])), .norm)
            | some _ => (σ, .exc "Unsupported")
        else (σ, .exc "TypeError")
      | .none | .bool _ | .int _ => (σ, .exc "TypeError")
      | _ => (σ, .exc "Unsupported")
  | .emitVTo x recv meth args, σ =>
    withVal σ (evalE env σ recv) fun rv =>
      match rv with
      | .none => (σ, .exc "AttributeError")
      | _ => withVal σ (evalEs env σ args) fun vs =>
        match doEmit env σ "$v" meth (rv :: vs) with
        | (σ1, .norm) => (σ1.setLocal x (env.rets σ.calls.length), .norm)
        | r => r
  | .popleftLocal p x, σ =>
    withVal σ (readVar σ x) fun d =>
      match d with
      | .list [] => (σ, .exc "IndexError")
      | .list (v :: r) =>
        let σp := σ.setLocal x (.list r)
        withVal σp (bindPat σp p v) fun σ1 => (σ1, .norm)
      | .none | .bool _ | .int _ => (σ, .exc "AttributeError")
      | _ => (σ, .exc "Unsupported")
  -- [deepSub] end
  -- [deepTr] begin
  | .tryCatchAllT body x handler, σ =>
    match execB env self fuel body σ with
    | (σ1, .exc c) =>
      if isPseudoExcT c then (σ1, .exc c) else execB env self fuel handler (σ1.bindOpt x (.obj c []))
    | r => r
  | .raiseVT e, σ =>
    withVal σ (evalE env σ e) fun v =>
      match v with
      | .obj c _ => (σ, .exc c)
      | .none | .bool _ | .int _ | .str _ | .bytes _ => (σ, .exc "TypeError")   -- exceptions must derive from BaseException
      | _ => (σ, .exc "Unsupported")
  | .emitToFT x obj meth args, σ =>
    withVal σ (readAttr σ obj) fun recv =>
      match recv with
      | .none => (σ, .exc "AttributeError")
      | _ =>
        withVal σ (evalEs env σ args) fun vs =>
          match doEmit env σ obj meth vs with
          | (σ1, .norm) => (σ1.setLocal x (env.retOfT obj meth vs), .norm)
          | r => r
  -- [deepTr] end
def execB (env : Env) (self : SelfCall) (fuel : Nat) : List Stmt → St → St × Flow
  | [], σ => (σ, .norm)
  | s :: r, σ => andThen (execS env self fuel s σ) (execB env self fuel r)
end

/-! ## methods -/

/-- what a method run leaves behind: the attributes of `self`, the collaborator calls in order, the exception -/
structure Outcome where
  heap : Store
  calls : List Call
  exc : Option String
  ret : Val := .none
  deriving Inhabited

def bindParams (params : List String) (args : List Val) : Store :=
  (params.zip args).foldl (fun s xv => s.set xv.1 xv.2) []

/-- `self.<meth>(args…)` by lookup in the table; every nested sibling call costs one unit of fuel, and every
    `while` inside gets the remaining fuel as its iteration bound -/
def callM (env : Env) (tbl : MethodTable) : Nat → SelfCall
  | 0, _, _, h, cs => (h, cs, .exc "OutOfFuel")
  | fuel + 1, meth, args, h, cs =>
    match tbl meth with
    | Option.none => (h, cs, .exc "AttributeError")
    | some (params, body) =>
      if params.length = args.length then
        match execB env (callM env tbl fuel) (fuel + 1) body { heap := h, locals := bindParams params args, calls := cs } with
        | (σ, .norm) => (σ.heap, σ.calls, .ok .none)
        | (σ, .ret v) => (σ.heap, σ.calls, .ok v)
        | (σ, .exc c) => (σ.heap, σ.calls, .exc c)
      else (h, cs, .exc "TypeError")

/-- run the body of method `meth` of the table on a heap -/
def exec (fuel : Nat) (env : Env) (tbl : MethodTable) (meth : String) (args : List Val) (heap : Store) : Outcome :=
  match callM env tbl fuel meth args heap [] with
  | (h, cs, .ok v) => { heap := h, calls := cs, exc := Option.none, ret := v }
  | (h, cs, .exc c) => { heap := h, calls := cs, exc := some c }

end WV.PyIR
