import WV.Model.Basic
import WV.Gen.T_Boss
import WV.Gen.T_Mailbox
import WV.Gen.T_Order
import WV.Gen.T_Send
import WV.Gen.T_Receive

/-!
C03 — mailbox messages arrive in order, exactly once, unmodified.

Model of the data path of one mailbox client:

* `_boss.py`      `Boss.S_send` (`_next_tx_phase`), `Boss.got_message` (phase dispatch),
                  `W_received` / `D_received_dilate` (strict-order loops over a dict),
* `_send.py`      `Send` (queue until the verified key, then encrypt + `M.add_message`),
* `_mailbox.py`   `Mailbox` (`_pending_outbound`, `_processed`, `rx_message` split on side,
                  drain on every connect, dequeue on echo),
* `_order.py`     `Order` (queue until the PAKE message),
* `_receive.py`   `Receive` (decrypt with the per-(side, phase) key; good / bad),
* `observer.py`   `SequenceObserver` + `eventual.py` (`get_message()`).

The five Automat tables are the *generated* ones (`WV.Gen.*.table`); this file gives the bodies of
the outputs.  Every machine is a pure step `state → input → (state, outgoing calls, exception?)`;
`Client` routes the outgoing calls depth-first like the Python call stack does and stops at the
first exception (state changes made so far persist).  `Pipe` is the abstract end-to-end pipeline
built from the same kernels (numbering, per-phase dedup, reorder buffer).
-/
namespace WV.C03
open WV WV.Gen

inductive Err where
  | noTransition      -- Automat: input not declared in this state
  | assertion         -- a failing `assert`
  | typeError         -- an output called with arguments of another input (only with a changed table)
  | attributeError    -- `self._mood` read before it was ever set
  deriving DecidableEq, Repr

def Err.name : Err → String
  | .noTransition => "NoTransition" | .assertion => "AssertionError"
  | .typeError => "TypeError" | .attributeError => "AttributeError"

/-! ## Python `dict` (insertion-ordered) as an association list -/

section Dict
variable {κ : Type} [DecidableEq κ] {β : Type}

/-- `d.get(k)` / `k in d` -/
def dget : List (κ × β) → κ → Option β
  | [], _ => none
  | (k', v) :: r, k => if k' = k then some v else dget r k

/-- `d[k] = v`: an existing key keeps its position, a new key goes last -/
def dset : List (κ × β) → κ → β → List (κ × β)
  | [], k, v => [(k, v)]
  | (k', v') :: r, k, v => if k' = k then (k, v) :: r else (k', v') :: dset r k v

/-- `d.pop(k, None)` -/
def dpop (d : List (κ × β)) (k : κ) : List (κ × β) := d.filter (fun e => !decide (e.1 = k))

end Dict

/-! ## `"%d" % phase` and `int(phase)` behind `^\d+$` -/

def digitChar (n : Nat) : Char := Char.ofNat (48 + n % 10)

/-- decimal digits of `n`, most significant first (fuel = `n + 1` is always enough) -/
def digitsAux : Nat → Nat → List Char → List Char
  | 0, _, acc => acc
  | fuel + 1, n, acc => if n < 10 then digitChar n :: acc else digitsAux fuel (n / 10) (digitChar n :: acc)

/-- `"%d" % n` -/
def showPhase (n : Nat) : String := String.ofList (digitsAux (n + 1) n [])

def isAsciiDigit (c : Char) : Bool := decide (48 ≤ c.toNat) && decide (c.toNat ≤ 57)

def digitsVal (cs : List Char) : Nat := cs.foldl (fun acc c => acc * 10 + (c.toNat - 48)) 0

/-- `re.search(r'^\d+$', s)` then `int(s)`, for ASCII digits: `$` also matches before one
    trailing newline, and `int()` strips it.  (Non-ASCII Unicode digits are outside the model.) -/
def parseDigitsL (cs : List Char) : Option Nat :=
  let body := if cs.getLast? = some '\n' then cs.dropLast else cs
  if body ≠ [] ∧ body.all isAsciiDigit then some (digitsVal body) else none

def parseDigits (s : String) : Option Nat := parseDigitsL s.toList

/-- `re.search(r'^dilate-(\d+)$', s)` then `int(group(1))` -/
def parseDilate (s : String) : Option Nat :=
  let pre := "dilate-".toList
  let cs := s.toList
  if pre.isPrefixOf cs then
    let rest := cs.drop pre.length
    let body := if rest.getLast? = some '\n' then rest.dropLast else rest
    if body ≠ [] ∧ body.all isAsciiDigit then some (digitsVal body) else none
  else none

/-! ## Boss: tx numbering and the two strict-order receive loops -/

/-- `_next_rx_phase` + `_rx_phases` (also `_next_rx_dilate_seqnum` + `_rx_dilate_seqnums`) -/
structure RxBuf where
  next : Nat
  phases : List (Nat × Bytes)
  deriving Repr, DecidableEq

def rxInit : RxBuf := { next := 0, phases := [] }

/-- `while self._next_rx_phase in self._rx_phases: W.received(pop(next)); next += 1`.
    Every turn removes a key, so `len(dict)` turns are enough (`Props.C03.rxLoop_fuel`). -/
def rxLoop : Nat → RxBuf → List Bytes → RxBuf × List Bytes
  | 0, b, acc => (b, acc)
  | fuel + 1, b, acc =>
    match dget b.phases b.next with
    | none => (b, acc)
    | some v => rxLoop fuel { next := b.next + 1, phases := dpop b.phases b.next } (acc ++ [v])

/-- `W_received(phase, plaintext)`: new buffer and the plaintexts handed to `W.received`, in order -/
def wReceived (b : RxBuf) (phase : Nat) (pt : Bytes) : RxBuf × List Bytes :=
  let b1 : RxBuf := { b with phases := dset b.phases phase pt }
  rxLoop b1.phases.length b1 []

structure BossD where
  st : Boss.State
  nextTx : Nat
  rx : RxBuf            -- `_next_rx_phase`, `_rx_phases`
  drx : RxBuf           -- `_next_rx_dilate_seqnum`, `_rx_dilate_seqnums`
  deriving Repr, DecidableEq

def bossInit : BossD := { st := Boss.init, nextTx := 0, rx := rxInit, drx := rxInit }

/-- arguments of a Boss input (Automat hands them to every output of the row) -/
inductive BArg where
  | none
  | pt (p : Bytes)                   -- send(plaintext), _got_version(plaintext)
  | phase (n : Nat) (p : Bytes)      -- _got_phase(phase, plaintext), _got_dilate(seqnum, plaintext)
  | one                              -- got_code(code), got_key(key), got_verifier(v), error(err), rx_unwelcome(e)
  | two                              -- rx_error(errmsg, orig)
  deriving Repr, DecidableEq

/-- calls leaving the Boss -/
inductive BEff where
  | sSend (phase : String) (pt : Bytes)     -- `self._S.send("%d" % phase, plaintext)`
  | wReceived (pt : Bytes)                   -- `self._W.received(plaintext)`
  | dReceived (pt : Bytes)                   -- `self._D.received_dilate(plaintext)`
  | tClose (mood : String)                   -- `self._T.close(mood)`
  | wClosed                                  -- `self._W.closed(result)`
  | wGotCode | wGotKey | dGotKey | wGotVerifier | dVersions | wVersions
  deriving Repr, DecidableEq

/-- `S_send`: `phase = self._next_tx_phase; self._next_tx_phase += 1` -/
def takeTxPhase (b : BossD) : BossD × Nat := ({ b with nextTx := b.nextTx + 1 }, b.nextTx)

abbrev BRes := BossD × List BEff × Option Err

def bossOut (o : Boss.Output) (a : BArg) (b : BossD) : BRes :=
  match o, a with
  | .S_send, .pt p => let (b', ph) := takeTxPhase b; (b', [.sSend (showPhase ph) p], none)
  | .W_received, .phase n p =>
    let (rx', ds) := wReceived b.rx n p
    ({ b with rx := rx' }, ds.map .wReceived, none)
  | .D_received_dilate, .phase n p =>
    let (rx', ds) := wReceived b.drx n p
    ({ b with drx := rx' }, ds.map .dReceived, none)
  | .process_version, .pt _ => (b, [.dVersions, .wVersions], none)
  | .send_status_confirmed_key, .pt _ => (b, [], none)
  | .close_unwelcome, .one => (b, [.tClose "unwelcome"], none)
  | .close_error, .two => (b, [.tClose "errory"], none)
  | .close_scared, .none => (b, [.tClose "scary"], none)
  | .close_lonely, .none => (b, [.tClose "lonely"], none)
  | .close_happy, .none => (b, [.tClose "happy"], none)
  | .do_got_code, .one => (b, [.wGotCode], none)
  | .W_got_key, .one => (b, [.wGotKey], none)
  | .D_got_key, .one => (b, [.dGotKey], none)
  | .send_status_peer_key, .one => (b, [], none)
  | .W_got_verifier, .one => (b, [.wGotVerifier], none)
  | .W_close_with_error, .one => (b, [.wClosed], none)
  | .W_closed, .none => (b, [.wClosed], none)
  | .send_status_closed, _ => (b, [], none)      -- declared without arguments in one row, with `err` in the other: Automat drops extras
  | _, _ => (b, [], some .typeError)

def bossOuts : List Boss.Output → BArg → BossD → List BEff → BRes
  | [], _, b, acc => (b, acc, none)
  | o :: os, a, b, acc =>
    match bossOut o a b with
    | (b', effs, none) => bossOuts os a b' (acc ++ effs)
    | (b', effs, some e) => (b', acc ++ effs, some e)

/-- one Automat dispatch of the Boss: absent row = `NoTransition` before any change; otherwise the
    new state is set first and the outputs run in order -/
def bossStep (b : BossD) (i : Boss.Input) (a : BArg) : BRes :=
  match Boss.table b.st i with
  | none => (b, [], some .noTransition)
  | some (st', outs) => bossOuts outs a { b with st := st' } []

/-- what `Boss.got_message(phase, plaintext)` dispatches to -/
inductive PhaseKind where
  | version | dilate (n : Nat) | numeric (n : Nat) | unknown
  deriving Repr, DecidableEq

def classifyPhase (phase : String) : PhaseKind :=
  if phase = "version" then .version
  else match parseDilate phase with
    | some n => .dilate n
    | none => match parseDigits phase with
      | some n => .numeric n
      | none => .unknown

/-- `Boss.got_message`; `none` = unknown phase, logged and ignored -/
def bossGotMessage (b : BossD) (phase : String) (pt : Bytes) : Option BRes :=
  match classifyPhase phase with
  | .version => some (bossStep b .u_got_version (.pt pt))
  | .dilate n => some (bossStep b .u_got_dilate (.phase n pt))
  | .numeric n => some (bossStep b .u_got_phase (.phase n pt))
  | .unknown => none

/-! ## Crypto as an interface -/

/-- `encrypt_data(derive_phase_key(key, side, phase), plaintext)` and its inverse, for the one
    session key both sides hold.  Ideal properties are hypotheses (`Crypto.Ideal`), never axioms. -/
structure Crypto where
  enc : String → String → Bytes → Bytes
  dec : String → String → Bytes → Option Bytes

structure Crypto.Ideal (C : Crypto) : Prop where
  open_seal : ∀ s p m, C.dec s p (C.enc s p m) = some m
  auth : ∀ s p c m, C.dec s p c = some m → c = C.enc s p m

/-! ## Send -/

structure SendD where
  st : Send.State
  key : Bool
  queue : List (String × Bytes)
  deriving Repr, DecidableEq

def sendInit : SendD := { st := Send.init, key := false, queue := [] }

inductive SArg where
  | send (phase : String) (pt : Bytes)
  | key
  deriving Repr, DecidableEq

/-- `M.add_message(phase, encrypted)` -/
abbrev SEff := String × Bytes

abbrev SRes := SendD × List SEff × Option Err

/-- `_encrypt_and_send` -/
def encryptAndSend (C : Crypto) (side : String) (s : SendD) (phase : String) (pt : Bytes) : Except Err SEff :=
  if s.key then .ok (phase, C.enc side phase pt) else .error .assertion

/-- the `for (phase, plaintext) in self._queue` loop of `drain` -/
def sendDrainLoop (C : Crypto) (side : String) (s : SendD) : List (String × Bytes) → List SEff → List SEff × Option Err
  | [], acc => (acc, none)
  | (ph, pt) :: r, acc =>
    match encryptAndSend C side s ph pt with
    | .ok e => sendDrainLoop C side s r (acc ++ [e])
    | .error e => (acc, some e)

def sendOut (C : Crypto) (side : String) (o : Send.Output) (a : SArg) (s : SendD) : SRes :=
  match o, a with
  | .queue, .send ph pt => ({ s with queue := s.queue ++ [(ph, pt)] }, [], none)
  | .record_key, .key => ({ s with key := true }, [], none)
  | .drain, .key =>
    match sendDrainLoop C side s s.queue [] with
    | (effs, none) => ({ s with queue := [] }, effs, none)      -- `self._queue[:] = []` only after the loop
    | (effs, some e) => (s, effs, some e)
  | .deliver, .send ph pt =>
    match encryptAndSend C side s ph pt with
    | .ok e => (s, [e], none)
    | .error e => (s, [], some e)
  | _, _ => (s, [], some .typeError)

def sendOuts (C : Crypto) (side : String) : List Send.Output → SArg → SendD → List SEff → SRes
  | [], _, s, acc => (s, acc, none)
  | o :: os, a, s, acc =>
    match sendOut C side o a s with
    | (s', effs, none) => sendOuts C side os a s' (acc ++ effs)
    | (s', effs, some e) => (s', acc ++ effs, some e)

def sendStep (C : Crypto) (side : String) (s : SendD) (i : Send.Input) (a : SArg) : SRes :=
  match Send.table s.st i with
  | none => (s, [], some .noTransition)
  | some (st', outs) => sendOuts C side outs a { s with st := st' } []

/-! ## Mailbox -/

structure MboxD where
  st : Mailbox.State
  mailbox : Bool                       -- `self._mailbox` is set (truthy)
  mood : Option String                 -- `self._mood`; `none` = attribute does not exist yet
  pending : List (String × Bytes)      -- `_pending_outbound`
  processed : List String              -- `_processed`, in insertion order
  deriving Repr, DecidableEq

def mboxInit : MboxD := { st := Mailbox.init, mailbox := false, mood := none, pending := [], processed := [] }

inductive MArg where
  | none
  | add (phase : String) (body : Bytes)
  | mailbox
  | mood (m : String)
  | ours (phase : String) (body : Bytes)
  | theirs (side phase : String) (body : Bytes)
  deriving Repr, DecidableEq

inductive MEff where
  | txOpen | txAdd (phase : String) (body : Bytes) | txClose (mood : String)
  | release                                          -- `self._N.release()`
  | toOrder (side phase : String) (body : Bytes)     -- `self._O.got_message(side, phase, body)`
  | mailboxDone                                      -- `self._T.mailbox_done()`
  deriving Repr, DecidableEq

abbrev MRes := MboxD × List MEff × Option Err

/-- the per-phase dedup of `N_release_and_accept`: `if phase not in processed: processed.add(phase); …` -/
def acceptPhase {κ : Type} [DecidableEq κ] (processed : List κ) (p : κ) : List κ × Bool :=
  if p ∈ processed then (processed, false) else (processed ++ [p], true)

/-- `_drain` -/
def drainEffs (m : MboxD) : List MEff := m.pending.map (fun e => .txAdd e.1 e.2)

def mboxOut (o : Mailbox.Output) (a : MArg) (m : MboxD) : MRes :=
  match o, a with
  | .record_mailbox, .mailbox => ({ m with mailbox := true }, [], none)
  | .RC_tx_open, .none => if m.mailbox then (m, [.txOpen], none) else (m, [], some .assertion)
  | .queue, .add p b => ({ m with pending := dset m.pending p b }, [], none)
  | .record_mailbox_and_RC_tx_open_and_drain, .mailbox =>
    let m' := { m with mailbox := true }
    (m', .txOpen :: drainEffs m', none)
  | .drain, .none => (m, drainEffs m, none)
  | .RC_tx_add, .add p b => (m, [.txAdd p b], none)
  | .N_release_and_accept, .theirs s p b =>
    match acceptPhase m.processed p with
    | (pr, true) => ({ m with processed := pr }, [.release, .toOrder s p b], none)
    | (pr, false) => ({ m with processed := pr }, [.release], none)
  | .RC_tx_close, .none =>
    match m.mood with
    | some md => (m, [.txClose md], none)
    | none => (m, [], some .attributeError)
  | .dequeue, .ours p _ => ({ m with pending := dpop m.pending p }, [], none)
  | .record_mood, .mood md => ({ m with mood := some md }, [], none)
  | .record_mood_and_RC_tx_close, .mood md => ({ m with mood := some md }, [.txClose md], none)
  | .ignore_mood_and_T_mailbox_done, .mood _ => (m, [.mailboxDone], none)
  | .T_mailbox_done, .none => (m, [.mailboxDone], none)
  | _, _ => (m, [], some .typeError)

def mboxOuts : List Mailbox.Output → MArg → MboxD → List MEff → MRes
  | [], _, m, acc => (m, acc, none)
  | o :: os, a, m, acc =>
    match mboxOut o a m with
    | (m', effs, none) => mboxOuts os a m' (acc ++ effs)
    | (m', effs, some e) => (m', acc ++ effs, some e)

def mboxStep (m : MboxD) (i : Mailbox.Input) (a : MArg) : MRes :=
  match Mailbox.table m.st i with
  | none => (m, [], some .noTransition)
  | some (st', outs) => mboxOuts outs a { m with st := st' } []

/-- `Mailbox.rx_message(side, phase, body)`: own echo vs peer message -/
def mboxRx (myside : String) (m : MboxD) (side phase : String) (body : Bytes) : MRes :=
  if side = myside then mboxStep m .rx_message_ours (.ours phase body)
  else mboxStep m .rx_message_theirs (.theirs side phase body)

/-! ## Order -/

structure OrderD where
  st : Order.State
  queue : List (String × String × Bytes)
  deriving Repr, DecidableEq

def orderInit : OrderD := { st := Order.init, queue := [] }

inductive OEff where
  | kGotPake (body : Bytes)                            -- `self._K.got_pake(body)`
  | rGotMessage (side phase : String) (body : Bytes)   -- `self._R.got_message(side, phase, body)`
  deriving Repr, DecidableEq

def orderOut (o : Order.Output) (a : String × String × Bytes) (s : OrderD) : OrderD × List OEff :=
  match o with
  | .queue => ({ s with queue := s.queue ++ [a] }, [])
  | .notify_key => (s, [.kGotPake a.2.2])
  | .drain => ({ s with queue := [] }, s.queue.map (fun m => .rGotMessage m.1 m.2.1 m.2.2))
  | .deliver => (s, [.rGotMessage a.1 a.2.1 a.2.2])

def orderOuts : List Order.Output → String × String × Bytes → OrderD → List OEff → OrderD × List OEff
  | [], _, s, acc => (s, acc)
  | o :: os, a, s, acc => let (s', effs) := orderOut o a s; orderOuts os a s' (acc ++ effs)

/-- `Order.got_message(side, phase, body)` -/
def orderStep (s : OrderD) (side phase : String) (body : Bytes) : OrderD × List OEff × Option Err :=
  let i : Order.Input := if phase = "pake" then .got_pake else .got_non_pake
  match Order.table s.st i with
  | none => (s, [], some .noTransition)
  | some (st', outs) => let (s', effs) := orderOuts outs (side, phase, body) { s with st := st' } []; (s', effs, none)

/-! ## Receive -/

structure RecvD where
  st : Receive.State
  key : Bool
  deriving Repr, DecidableEq

def recvInit : RecvD := { st := Receive.init, key := false }

inductive REff where
  | sGotVerifiedKey | bHappy | bGotVerifier | bScared
  | bGotMessage (phase : String) (pt : Bytes)
  deriving Repr, DecidableEq

inductive RArg where
  | key | bad | good (phase : String) (pt : Bytes)
  deriving Repr, DecidableEq

abbrev RRes := RecvD × List REff × Option Err

def recvOut (o : Receive.Output) (a : RArg) (r : RecvD) : RRes :=
  match o, a with
  | .record_key, .key => ({ r with key := true }, [], none)
  | .S_got_verified_key, .good _ _ => if r.key then (r, [.sGotVerifiedKey], none) else (r, [], some .assertion)
  | .W_happy, .good _ _ => (r, [.bHappy], none)
  | .W_got_verifier, .good _ _ => (r, [.bGotVerifier], none)
  | .W_got_message, .good ph pt => (r, [.bGotMessage ph pt], none)
  | .W_scared, .bad => (r, [.bScared], none)
  | _, _ => (r, [], some .typeError)

def recvOuts : List Receive.Output → RArg → RecvD → List REff → RRes
  | [], _, r, acc => (r, acc, none)
  | o :: os, a, r, acc =>
    match recvOut o a r with
    | (r', effs, none) => recvOuts os a r' (acc ++ effs)
    | (r', effs, some e) => (r', acc ++ effs, some e)

def recvStep (r : RecvD) (i : Receive.Input) (a : RArg) : RRes :=
  match Receive.table r.st i with
  | none => (r, [], some .noTransition)
  | some (st', outs) => recvOuts outs a { r with st := st' } []

/-- `Receive.got_message(side, phase, body)` -/
def recvGotMessage (C : Crypto) (r : RecvD) (side phase : String) (body : Bytes) : RRes :=
  if !r.key then recvStep r .got_message_bad .bad else    -- `if self._key is None: self.got_message_bad(); return`
  match C.dec side phase body with
  | none => recvStep r .got_message_bad .bad
  | some pt => recvStep r .got_message_good (.good phase pt)

/-! ## `SequenceObserver` + the eventual queue (Deferred API: `get_message()`) -/

inductive CbVal where
  | ok (v : Bytes) | err
  deriving Repr, DecidableEq

structure Obs where
  error : Bool
  results : List Bytes
  observers : List Nat             -- waiting Deferreds (numbered in the order `get_message()` was called)
  queue : List (Nat × CbVal)       -- `EventualQueue._calls` (the Deferred firings in it)
  fired : List (Nat × CbVal)       -- firings that have run, in order
  nextId : Nat
  deriving Repr, DecidableEq

def obsInit : Obs := { error := false, results := [], observers := [], queue := [], fired := [], nextId := 0 }

/-- `when_next_event()` -/
def Obs.get (o : Obs) : Obs :=
  let d := o.nextId
  let o := { o with nextId := d + 1 }
  if o.error then { o with queue := o.queue ++ [(d, .err)] }
  else match o.results with
    | r :: rs => { o with results := rs, queue := o.queue ++ [(d, .ok r)] }
    | [] => { o with observers := o.observers ++ [d] }

/-- `fire(result)` with a plain result -/
def Obs.fire (o : Obs) (v : Bytes) : Obs :=
  let o := { o with results := o.results ++ [v] }
  match o.observers, o.results with
  | d :: ds, r :: rs => { o with observers := ds, results := rs, queue := o.queue ++ [(d, .ok r)] }
  | _, _ => o

/-- `fire(Failure)` -/
def Obs.fireError (o : Obs) : Obs :=
  { o with error := true, queue := o.queue ++ o.observers.map (fun d => (d, .err)), observers := [] }

/-- one `EventualQueue._turn` -/
def Obs.turn (o : Obs) : Obs := { o with fired := o.fired ++ o.queue, queue := [] }

/-! ## One client: the machines wired like `Boss._build_workers` does -/

/-- calls that leave the modelled part (to RC, N, K, T, D, the app) -/
inductive Ev where
  | txOpen | txAdd (phase : String) (body : Bytes) | txClose (mood : String)
  | release | mdone | pake (body : Bytes) | tClose (mood : String)
  | received (pt : Bytes) | dilate (pt : Bytes)
  | code | key | dkey | verifier | dversions | versions | closed | unknownPhase
  | cb (d : Nat) (v : CbVal)
  deriving Repr, DecidableEq

structure Client where
  side : String
  boss : BossD
  send : SendD
  mbox : MboxD
  order : OrderD
  recv : RecvD
  obs : Obs
  log : List Ev
  deriving Repr

def clientInit (side : String) : Client :=
  { side := side, boss := bossInit, send := sendInit, mbox := mboxInit, order := orderInit, recv := recvInit,
    obs := obsInit, log := [] }

abbrev CRes := Client × Option Err

def Client.emit (c : Client) (e : Ev) : Client := { c with log := c.log ++ [e] }

/-- run calls in order; stop at the first exception -/
def runEffs {ε : Type} (f : Client → ε → CRes) : Client → List ε → CRes
  | c, [] => (c, none)
  | c, e :: es =>
    match f c e with
    | (c', none) => runEffs f c' es
    | (c', some err) => (c', some err)

/-- raise `err` (if any) after the calls made before it -/
def thenErr (r : CRes) (err : Option Err) : CRes :=
  match r with
  | (c, none) => (c, err)
  | (c, some e) => (c, some e)

/-- Mailbox calls that stay outside the model -/
def mEffSimple (c : Client) : MEff → CRes
  | .txOpen => (c.emit .txOpen, none)
  | .txAdd p b => (c.emit (.txAdd p b), none)
  | .txClose md => (c.emit (.txClose md), none)
  | .release => (c.emit .release, none)
  | .mailboxDone => (c.emit .mdone, none)
  | .toOrder _ _ _ => (c, some .typeError)    -- only `N_release_and_accept` calls Order, and only with `theirs` arguments

/-- every Mailbox input except `rx_message_theirs` -/
def cMbox (c : Client) (i : Mailbox.Input) (a : MArg) : CRes :=
  let (m', effs, err) := mboxStep c.mbox i a
  thenErr (runEffs mEffSimple { c with mbox := m' } effs) err

def cSend (C : Crypto) (c : Client) (i : Send.Input) (a : SArg) : CRes :=
  let (s', effs, err) := sendStep C c.side c.send i a
  match runEffs (fun c (e : SEff) => cMbox c .add_message (.add e.1 e.2)) { c with send := s' } effs with
  | (c', none) => (c', err)
  | (c', some e) =>
    -- an exception out of `M.add_message` leaves `drain` before `self._queue[:] = []`
    ({ c' with send := { c'.send with queue := c.send.queue } }, some e)

def bEff (C : Crypto) (c : Client) : BEff → CRes
  | .sSend ph pt => cSend C c .send (.send ph pt)
  | .wReceived pt => ({ c.emit (.received pt) with obs := c.obs.fire pt }, none)
  | .dReceived pt => (c.emit (.dilate pt), none)
  | .tClose md => (c.emit (.tClose md), none)
  | .wClosed => ({ c.emit .closed with obs := c.obs.fireError }, none)
  | .wGotCode => (c.emit .code, none)
  | .wGotKey => (c.emit .key, none)
  | .dGotKey => (c.emit .dkey, none)
  | .wGotVerifier => (c.emit .verifier, none)
  | .dVersions => (c.emit .dversions, none)
  | .wVersions => (c.emit .versions, none)

def cBossRes (C : Crypto) (c : Client) (r : BRes) : CRes :=
  let (b', effs, err) := r
  thenErr (runEffs (bEff C) { c with boss := b' } effs) err

def cBoss (C : Crypto) (c : Client) (i : Boss.Input) (a : BArg) : CRes :=
  cBossRes C c (bossStep c.boss i a)

def cBossGotMessage (C : Crypto) (c : Client) (phase : String) (pt : Bytes) : CRes :=
  match bossGotMessage c.boss phase pt with
  | some r => cBossRes C c r
  | none => (c.emit .unknownPhase, none)

def rEff (C : Crypto) (c : Client) : REff → CRes
  | .sGotVerifiedKey => cSend C c .got_verified_key .key
  | .bHappy => cBoss C c .happy .none
  | .bGotVerifier => cBoss C c .got_verifier .one
  | .bScared => cBoss C c .scared .none
  | .bGotMessage ph pt => cBossGotMessage C c ph pt

def cRecvRes (C : Crypto) (c : Client) (r : RRes) : CRes :=
  let (r', effs, err) := r
  thenErr (runEffs (rEff C) { c with recv := r' } effs) err

def oEff (C : Crypto) (c : Client) : OEff → CRes
  | .kGotPake b => (c.emit (.pake b), none)
  | .rGotMessage s p b => cRecvRes C c (recvGotMessage C c.recv s p b)

def cOrder (C : Crypto) (c : Client) (side phase : String) (body : Bytes) : CRes :=
  let (o', effs, err) := orderStep c.order side phase body
  match runEffs (oEff C) { c with order := o' } effs with
  | (c', none) => (c', err)
  | (c', some e) =>
    -- an exception out of `_deliver` leaves `drain` before `self._queue[:] = []`
    ({ c' with order := { c'.order with queue := c.order.queue } }, some e)

def mEffRx (C : Crypto) (c : Client) : MEff → CRes
  | .toOrder s p b => cOrder C c s p b
  | e => mEffSimple c e

/-- `Mailbox.rx_message(side, phase, body)` -/
def cMboxRx (C : Crypto) (c : Client) (side phase : String) (body : Bytes) : CRes :=
  let (m', effs, err) := mboxRx c.side c.mbox side phase body
  thenErr (runEffs (mEffRx C) { c with mbox := m' } effs) err

/-! ## the API façade (`wormhole.py`: `_DelegatedWormhole` / `_DeferredWormhole`)

Both façades are thin: `send_message` / `close` call the Boss at once (also when the application calls
them from inside one of its callbacks — Automat then runs the nested input depth-first, i.e. at that
point of the Boss's input sequence), and the events from the Boss are handed to the delegate
synchronously (Delegated) or to the observers (Deferred: `Obs`).  `Props.C03.api_skeleton_agrees`
pins exactly this shape. -/

/-- `w.send_message(plaintext)` = `self._boss.send(plaintext)` -/
def wSendMessage (C : Crypto) (c : Client) (pt : Bytes) : CRes := cBoss C c .send (.pt pt)

/-- `w.close()` = `self._boss.close()` -/
def wClose (C : Crypto) (c : Client) : CRes := cBoss C c .close .none

/-! ## well-typed inputs of the machines (what their callers can actually pass) -/

inductive BIn where
  | send (pt : Bytes)
  | gotPhase (n : Nat) (pt : Bytes) | gotDilate (n : Nat) (pt : Bytes) | gotVersion (pt : Bytes)
  | gotMessage (phase : String) (pt : Bytes)
  | close | closed | error | gotCode | gotKey | gotVerifier | happy | scared | rxError | rxUnwelcome
  deriving Repr, DecidableEq

def bossIn (b : BossD) : BIn → BRes
  | .send pt => bossStep b .send (.pt pt)
  | .gotPhase n pt => bossStep b .u_got_phase (.phase n pt)
  | .gotDilate n pt => bossStep b .u_got_dilate (.phase n pt)
  | .gotVersion pt => bossStep b .u_got_version (.pt pt)
  | .gotMessage ph pt => (bossGotMessage b ph pt).getD (b, [], none)   -- unknown phase: logged, ignored
  | .close => bossStep b .close .none
  | .closed => bossStep b .closed .none
  | .error => bossStep b .k_error .one
  | .gotCode => bossStep b .got_code .one
  | .gotKey => bossStep b .got_key .one
  | .gotVerifier => bossStep b .got_verifier .one
  | .happy => bossStep b .happy .none
  | .scared => bossStep b .scared .none
  | .rxError => bossStep b .rx_error .two
  | .rxUnwelcome => bossStep b .rx_unwelcome .one

inductive SIn where
  | send (phase : String) (pt : Bytes)
  | verified
  deriving Repr, DecidableEq

def sendIn (C : Crypto) (side : String) (s : SendD) : SIn → SRes
  | .send ph pt => sendStep C side s .send (.send ph pt)
  | .verified => sendStep C side s .got_verified_key .key

inductive MIn where
  | connected | lost | gotMailbox | rxClosed
  | close (mood : String)
  | add (phase : String) (body : Bytes)
  | rx (side phase : String) (body : Bytes)
  deriving Repr, DecidableEq

def mboxIn (myside : String) (m : MboxD) : MIn → MRes
  | .connected => mboxStep m .connected .none
  | .lost => mboxStep m .lost .none
  | .gotMailbox => mboxStep m .got_mailbox .mailbox
  | .rxClosed => mboxStep m .rx_closed .none
  | .close md => mboxStep m .close (.mood md)
  | .add p b => mboxStep m .add_message (.add p b)
  | .rx s p b => mboxRx myside m s p b

inductive ObsOp where
  | get | fire (v : Bytes) | turn
  deriving Repr, DecidableEq

def Obs.op (o : Obs) : ObsOp → Obs
  | .get => o.get
  | .fire v => o.fire v
  | .turn => o.turn

/-! ## `Pipe`: sender numbering → server bag (duplication / reordering / replay) → per-phase
    dedup → reorder buffer, built from the kernels the machines above call -/

structure Pipe where
  sent : List Bytes                 -- arguments of `send_message`, in order
  tx : BossD                        -- the sender's Boss (only `_next_tx_phase` matters)
  bag : List (Nat × Bytes)          -- everything the server has stored: (phase, payload)
  processed : List Nat              -- receiver's `Mailbox._processed`
  rx : RxBuf                        -- receiver's `_next_rx_phase` / `_rx_phases`
  received : List Bytes             -- what the receiving application got, in order
  deriving Repr

def pipeInit : Pipe := { sent := [], tx := bossInit, bag := [], processed := [], rx := rxInit, received := [] }

inductive Act where
  | send (pt : Bytes)        -- the sending application calls `send_message(pt)`
  | deliver (i : Nat)        -- the server delivers its i-th stored message (again); any order, any number of times
  deriving Repr, DecidableEq

def Pipe.step (p : Pipe) : Act → Pipe
  | .send pt =>
    let (tx', ph) := takeTxPhase p.tx
    { p with sent := p.sent ++ [pt], tx := tx', bag := p.bag ++ [(ph, pt)] }
  | .deliver i =>
    match p.bag[i]? with
    | none => p
    | some (ph, body) =>
      match acceptPhase p.processed ph with
      | (pr, false) => { p with processed := pr }
      | (pr, true) =>
        let (rx', ds) := wReceived p.rx ph body
        { p with processed := pr, rx := rx', received := p.received ++ ds }

def Pipe.run (p : Pipe) (acts : List Act) : Pipe := acts.foldl Pipe.step p

/-! ## driver (line protocol)

```
new <side>                         fresh client whose side id is <side>
send <hex>                         Boss.send(plaintext)
boss <input>                       Boss.<input>(…)   close closed error got_code got_key got_verifier happy scared rx_error rx_unwelcome
rx <phase:nat> <hex>               Boss._got_phase(phase, plaintext)
drx <seqnum:nat> <hex>             Boss._got_dilate(seqnum, plaintext)
got_message <phase:hex-utf8> <hex> Boss.got_message(phase, plaintext)
key                                Receive.got_key(key)
verified                           Send.got_verified_key(key)
mbox <input> [mood]                Mailbox.<input>()  connected lost got_mailbox rx_closed close
add <phase:hex-utf8> <hex>         Mailbox.add_message(phase, body)
mailbox_rx <side> <phase:hex-utf8> <hex>     Mailbox.rx_message(side, phase, body)
get_message                        w.get_message()
turn                               one eventual-queue turn
pipe <n> <acts…>                   run `Pipe` on `s<hex>` / `d<i>` actions, print received
```
Output: `<ok|Exception> <calls…> | <state digest>`.

Toy sealing used by the driver (the harness maps real ciphertexts to it and back):
`seal side phase m = |side| side |phase| phase m chk`, `chk = (Σ all previous bytes) % 251`.
-/

def toyHeader (side phase : String) : Bytes :=
  let s := utf8 side
  let p := utf8 phase
  (s.length % 256) :: s ++ ((p.length % 256) :: p)

def toySeal (side phase : String) (m : Bytes) : Bytes :=
  let pre := toyHeader side phase ++ m
  pre ++ [pre.sum % 251]

def toyUnseal (side phase : String) (c : Bytes) : Option Bytes :=
  let h := toyHeader side phase
  if h.isPrefixOf c ∧ h.length < c.length then
    let pre := c.dropLast
    if c.getLast? = some (pre.sum % 251) then some (pre.drop h.length) else none
  else none

def toyCrypto : Crypto := { enc := toySeal, dec := toyUnseal }

def showCb : CbVal → String
  | .ok v => toHex v
  | .err => "ERR"

def showEv : Ev → String
  | .txOpen => "open"
  | .txAdd p b => s!"add {hexOfStr p} {toHex b}"
  | .txClose md => s!"close {md}"
  | .release => "release"
  | .mdone => "mdone"
  | .pake b => s!"pake {toHex b}"
  | .tClose md => s!"tclose {md}"
  | .received pt => s!"received {toHex pt}"
  | .dilate pt => s!"dilate {toHex pt}"
  | .code => "code" | .key => "key" | .dkey => "dkey" | .verifier => "verifier"
  | .dversions => "dversions" | .versions => "versions" | .closed => "closed" | .unknownPhase => "unknown-phase"
  | .cb d v => s!"cb {d} {showCb v}"

/-- insertion sort on strings (`sorted(self._processed)`) -/
def insertSorted (x : String) : List String → List String
  | [] => [x]
  | y :: r => if x < y then x :: y :: r else y :: insertSorted x r

def sortStrings (l : List String) : List String := l.foldr insertSorted []

def showKeys (l : List String) : String := ",".intercalate (l.map hexOfStr)

def digest (c : Client) : String :=
  s!"B={Boss.State.name c.boss.st} M={Mailbox.State.name c.mbox.st} O={Order.State.name c.order.st} " ++
  s!"S={Send.State.name c.send.st} R={Receive.State.name c.recv.st} tx={c.boss.nextTx} rx={c.boss.rx.next} " ++
  s!"buf=[{",".intercalate (c.boss.rx.phases.map (fun e => toString e.1))}] " ++
  s!"drx={c.boss.drx.next} dbuf=[{",".intercalate (c.boss.drx.phases.map (fun e => toString e.1))}] " ++
  s!"pend=[{showKeys (c.mbox.pending.map (·.1))}] proc=[{showKeys (sortStrings c.mbox.processed)}] " ++
  s!"sq={c.send.queue.length} oq={c.order.queue.length} res={c.obs.results.length} obs={c.obs.observers.length}"

def finish (r : CRes) : Client × String :=
  let (c, err) := r
  let head := match err with | none => "ok" | some e => e.name
  let evs := c.log.map showEv
  ({ c with log := [] }, head ++ (if evs.isEmpty then "" else " " ++ "; ".intercalate evs) ++ " | " ++ digest c)

def bossInput? : String → Option (Boss.Input × BArg)
  | "close" => some (.close, .none)
  | "closed" => some (.closed, .none)
  | "error" => some (.k_error, .one)
  | "got_code" => some (.got_code, .one)
  | "got_key" => some (.got_key, .one)
  | "got_verifier" => some (.got_verifier, .one)
  | "happy" => some (.happy, .none)
  | "scared" => some (.scared, .none)
  | "rx_error" => some (.rx_error, .two)
  | "rx_unwelcome" => some (.rx_unwelcome, .one)
  | _ => none

def readAct? (t : String) : Option Act :=
  match t.toList with
  | 's' :: r => (fromHex? (String.ofList r)).map .send
  | 'd' :: r => (String.ofList r).toNat?.map .deliver
  | _ => none

def step (c : Client) (line : String) : Client × String :=
  let C := toyCrypto
  match tokens line with
  | ["reset"] => (clientInit "aa", "ok")
  | ["new", side] => (clientInit side, "ok")
  | ["send", h] =>
    match fromHex? h with
    | some pt => finish (wSendMessage C c pt)
    | none => (c, "bad-op")
  | ["close"] => finish (wClose C c)
  | ["boss", name] =>
    match bossInput? name with
    | some (i, a) => finish (cBoss C c i a)
    | none => (c, "bad-op")
  | ["rx", n, h] =>
    match n.toNat?, fromHex? h with
    | some n, some pt => finish (cBoss C c .u_got_phase (.phase n pt))
    | _, _ => (c, "bad-op")
  | ["drx", n, h] =>
    match n.toNat?, fromHex? h with
    | some n, some pt => finish (cBoss C c .u_got_dilate (.phase n pt))
    | _, _ => (c, "bad-op")
  | ["got_message", ph, h] =>
    match strOfHex? ph, fromHex? h with
    | some ph, some pt => finish (cBossGotMessage C c ph pt)
    | _, _ => (c, "bad-op")
  | ["key"] => finish (cRecvRes C c (recvStep c.recv .got_key .key))
  | ["verified"] => finish (cSend C c .got_verified_key .key)
  | ["mbox", "connected"] => finish (cMbox c .connected .none)
  | ["mbox", "lost"] => finish (cMbox c .lost .none)
  | ["mbox", "got_mailbox"] => finish (cMbox c .got_mailbox .mailbox)
  | ["mbox", "rx_closed"] => finish (cMbox c .rx_closed .none)
  | ["mbox", "close", md] => finish (cMbox c .close (.mood md))
  | ["add", ph, h] =>
    match strOfHex? ph, fromHex? h with
    | some ph, some b => finish (cMbox c .add_message (.add ph b))
    | _, _ => (c, "bad-op")
  | ["mailbox_rx", side, ph, h] =>
    match strOfHex? ph, fromHex? h with
    | some ph, some b => finish (cMboxRx C c side ph b)
    | _, _ => (c, "bad-op")
  | ["get_message"] => finish ({ c with obs := c.obs.get }, none)
  | ["turn"] =>
    let q := c.obs.queue
    finish ({ c with obs := c.obs.turn, log := c.log ++ q.map (fun e => .cb e.1 e.2) }, none)
  | "pipe" :: acts =>
    match acts.mapM readAct? with
    | some as =>
      let p := pipeInit.run as
      (c, s!"received=[{",".intercalate (p.received.map toHex)}] next={p.rx.next} buf={p.rx.phases.length}")
    | none => (c, "bad-op")
  | _ => (c, "bad-op")

/-! ## a process: several wormholes living in one Python process

```
proc <side0> <side1> …             fresh clients 0, 1, … (one real `wormhole.create()` each, all in the same process)
at <i> <any line above>            that operation on client i
```
Every `Boss` — with its two strict-order buffers —, `Mailbox`, `Send`, `Order`, `Receive` and observer is an object of
its own: an operation on one wormhole of the process is `step` on that client and touches nothing else
(`Props.C03.process_isolation`).  On the real code the harness performs the same lines on real clients created in one
process; after each `at` line it also reports which OTHER clients' buffers changed (the model never reports any). -/

structure Proc where
  one : Client            -- the client of the plain (single-client) lines
  many : List Client      -- the clients made by `proc …`, addressed by `at <i> …`

def procInit : Proc := { one := clientInit "aa", many := [] }

/-- `at <i> <line>`: `step` on client `i`, the others stay as they are -/
def procAt (many : List Client) (i : Nat) (line : String) : List Client × String :=
  match many[i]? with
  | some c => let r := step c line; (many.set i r.1, r.2)
  | none => (many, "bad-op")

def pstep (p : Proc) (line : String) : Proc × String :=
  match tokens line with
  | ["reset"] => (procInit, "ok")
  | "proc" :: sides => ({ p with many := sides.map clientInit }, "ok")
  | "at" :: i :: rest =>
    match i.toNat? with
    | some i => let r := procAt p.many i (" ".intercalate rest); ({ p with many := r.1 }, r.2)
    | none => (p, "bad-op")
  | _ => let r := step p.one line; ({ p with one := r.1 }, r.2)

def driver (lines : List String) : List String := runLines pstep procInit lines

end WV.C03
