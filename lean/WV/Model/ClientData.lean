import WV.Model.Client

/-!
# Data layer on top of the control model (`WV.ClientData`)

The concrete client keeps phase numbers, the per-phase dedup set, the pending-outbound dict, the
Send queue and the reorder buffer.  None of them steers control except through two bits that
`classify` computes (`new`: phase ∉ `_processed`); the concrete step is *defined* as

    control' := Client.step control (classify data event)        -- the certified part
    data', outputs := refine data event (markers of that step)   -- bookkeeping only

so every concrete run projects onto a run of the control model (`conc_step_ctl`, by `rfl`).
This file also holds the line-protocol driver used by the correspondence runs.
-/
namespace WV.ClientData
open WV WV.Client

structure Data where
  processed : List String := []      -- Mailbox._processed
  pending : List String := []        -- Mailbox._pending_outbound keys, insertion order
  sendQ : List Nat := []             -- Send._queue (phase numbers)
  nextTx : Nat := 0                  -- Boss._next_tx_phase
  nextRx : Nat := 0                  -- Boss._next_rx_phase
  rxBuf : List Nat := []             -- keys of Boss._rx_phases
  deriving Repr, Inhabited

/-- concrete events: like `Client.Event`, but a message carries its phase *string* -/
inductive CEvent where
  | plain (e : Event)
  | message (side : Side) (phase : String) (good : Bool) (pake : PakeKind)
  deriving Repr, Inhabited

def allDigits (s : String) : Bool := !s.isEmpty && s.toList.all Char.isDigit

/-- `Boss.got_message` / `Order.got_message` phase classification: `version`, `^dilate-(\d+)$`, `^\d+$` -/
def phaseClass (p : String) : PhaseC :=
  if p == "pake" then .pake
  else if p == "version" then .version
  else if allDigits p then .num
  else if p.startsWith "dilate-" && allDigits (String.ofList (p.toList.drop 7)) then .dilate
  else .other

def classify (d : Data) : CEvent → Event
  | .plain e => e
  | .message side phase good pake => .message side (phaseClass phase) (!d.processed.contains phase) good pake

structure Refine where
  d : Data
  out : List String := []   -- newest first
  cur : Option Nat := none  -- phase number taken by the S_send of this step
  draining : List Nat := [] -- numbers being drained out of Send._queue in this step

def showPhaseC : PhaseC → String
  | .pake => "pake" | .version => "version" | .num => "num" | .dilate => "dilate" | .other => "other"

def showMood : Mood → String
  | .happy => "happy" | .lonely => "lonely" | .scary => "scary" | .errory => "errory" | .unwelcome => "unwelcome"

def showVerdict : Verdict → String
  | .empty => "empty" | .happy => "happy" | .lonely => "LonelyError" | .wrongPassword => "WrongPasswordError"
  | .serverError => "ServerError" | .welcomeError => "WelcomeError" | .internalError => "internal"
  | .connectionError => "ServerConnectionError"

def showEv : AppEv → String
  | .welcome => "welcome" | .code => "code" | .key => "key" | .verifier => "verifier" | .versions => "versions"
  | .received => "received" | .closed v => "closed:" ++ showVerdict v

/-- names of the phases an `add`/`queue` of class `ph` refers to in this step -/
def phaseNames (r : Refine) (ph : PhaseC) : List String :=
  match ph with
  | .pake => ["pake"]
  | .version => ["version"]
  | .num => if !r.draining.isEmpty then r.draining.map toString else
            match r.cur with | some k => [toString k] | none => ["?"]
  | _ => ["?"]

def insertKey (l : List String) (k : String) : List String := if l.contains k then l else l ++ [k]

/-- deliver from the reorder buffer: `while self._next_rx_phase in self._rx_phases` -/
def deliverLoop : Nat → Nat → List Nat → Nat × List Nat × Nat
  | 0, next, buf => (next, buf, 0)
  | fuel + 1, next, buf =>
    if buf.contains next then
      let (n', b', k) := deliverLoop fuel (next + 1) (buf.erase next)
      (n', b', k + 1)
    else (next, buf, 0)

def refine1 (ev : CEvent) (r : Refine) : Obs → Refine
  | .tx .bind => { r with out := "tx:bind" :: r.out }
  | .tx .claim => { r with out := "tx:claim" :: r.out }
  | .tx .release => { r with out := "tx:release" :: r.out }
  | .tx .open_ => { r with out := "tx:open" :: r.out }
  | .tx (.add ph) => { r with out := (phaseNames r ph).reverse.map (fun n => "tx:add:" ++ n) ++ r.out }
  | .tx (.close md) => { r with out := ("tx:close:" ++ showMood md) :: r.out }
  | .tx .list => { r with out := "tx:list" :: r.out }
  | .tx .allocate => { r with out := "tx:allocate" :: r.out }
  | .drainAdds => { r with out := r.d.pending.reverse.map (fun n => "tx:add:" ++ n) ++ r.out }
  | .sendDrain => { r with draining := r.d.sendQ, d := { r.d with sendQ := [] } }
  | .numAlloc => { r with cur := some r.d.nextTx, d := { r.d with nextTx := r.d.nextTx + 1 } }
  | .sQueue => match r.cur with
    | some k => { r with d := { r.d with sendQ := r.d.sendQ ++ [k] } }
    | none => r
  | .mQueue ph => { r with d := { r.d with pending := (phaseNames r ph).foldl insertKey r.d.pending } }
  | .mDequeue => match ev with
    | .message _ phase _ _ => { r with d := { r.d with pending := r.d.pending.filter (· != phase) } }
    | _ => r
  | .accepted => match ev with
    | .message _ phase _ _ => { r with d := { r.d with processed := insertKey r.d.processed phase } }
    | _ => r
  | .ev .received => match ev with
    | .message _ phase _ _ =>
      match phase.toNat? with
      | some k =>
        let buf := if r.d.rxBuf.contains k then r.d.rxBuf else k :: r.d.rxBuf
        let (n', b', cnt) := deliverLoop (buf.length + 1) r.d.nextRx buf
        { r with d := { r.d with nextRx := n', rxBuf := b' }, out := List.replicate cnt "ev:received" ++ r.out }
      | none => r
    | _ => r
  | .ev e => { r with out := ("ev:" ++ showEv e) :: r.out }
  | .stopService => { r with out := "stopService" :: r.out }

structure Conc where
  ctl : Ctl := {}
  data : Data := {}
  deriving Repr, Inhabited

/-- the concrete step -/
def cstep (s : Conc) (ev : CEvent) : Conc × List String × Outcome :=
  let (ctl', obs, oc) := Client.step s.ctl (classify s.data ev)
  let r := obs.foldl (refine1 ev) { d := s.data }
  ({ ctl := ctl', data := r.d }, r.out.reverse, oc)

/-- the control projection of the concrete step is the control step, by construction -/
theorem cstep_ctl (s : Conc) (ev : CEvent) :
    (cstep s ev).1.ctl = (Client.step s.ctl (classify s.data ev)).1 := rfl

/-! ## driver -/

def showStates (c : Ctl) : String :=
  s!"B={c.b.name} N={c.n.name} M={c.m.name} T={c.t.name} C={c.c.name} A={c.a.name} L={c.l.name} I={c.i.name} K={c.k.name} SK={c.sk.name} O={c.o.name} R={c.r.name} S={c.s.name}"

def showOutcome : Outcome → String
  | .ok => "ok"
  | .apiError e => "api:" ++ e.name
  | .internal e => "internal:" ++ e.name

def bool? : String → Option Bool
  | "1" => some true | "0" => some false | _ => none

def pake? : String → Option PakeKind
  | "good" => some .good | "nofield" => some .noField | "invalid" => some .invalid | _ => none

def parseEvent (ts : List String) : Option CEvent :=
  match ts with
  | ["setcode", v] => (bool? v).map (fun b => .plain (.setCode b))
  | ["allocate"] => some (.plain .allocateCode)
  | ["inputcode"] => some (.plain .inputCode)
  | ["h", "refresh"] => some (.plain .hRefresh)
  | ["h", "npc"] => some (.plain .hNameplateCompletions)
  | ["h", "choosenp", v] => (bool? v).map (fun b => .plain (.hChooseNameplate b))
  | ["h", "wc"] => some (.plain .hWordCompletions)
  | ["h", "choosewords"] => some (.plain .hChooseWords)
  | ["send"] => some (.plain .send)
  | ["close"] => some (.plain .close)
  | ["open"] => some (.plain .wsOpen)
  | ["drop"] => some (.plain .wsClose)
  | ["wsfail"] => some (.plain .wsFail)
  | ["tcpup"] => some (.plain .tcpUp)
  | ["wsclosing"] => some (.plain .wsClosing)
  | ["failinitial"] => some (.plain .failInitial)
  | ["svcstopped"] => some (.plain .svcStopped)
  | ["welcome", v] => (bool? v).map (fun b => .plain (.welcome b))
  | ["claimed"] => some (.plain .claimed)
  | ["released"] => some (.plain .released)
  | ["closed"] => some (.plain .closedResp)
  | ["allocated"] => some (.plain .allocated)
  | ["nameplates"] => some (.plain .nameplates)
  | ["ack"] => some (.plain .ack)
  | ["error"] => some (.plain .serverError)
  | ["msg", side, phaseHex, good, pk] => do
      let sd ← (if side == "ours" then some Side.ours else if side == "theirs" then some Side.theirs else none)
      let ph ← strOfHex? phaseHex
      let g ← bool? good
      let k ← pake? pk
      pure (.message sd ph g k)
  | _ => none

def drvStep (s : Conc) (line : String) : Conc × String :=
  match tokens line with
  | ["reset"] => ({}, "ok")
  | ts =>
    match parseEvent ts with
    | none => (s, "bad-op")
    | some ev =>
      let (s', out, oc) := cstep s ev
      (s', s!"{showOutcome oc} | {showStates s'.ctl} | {" ".intercalate out}")

def driver (lines : List String) : List String := runLines drvStep {} lines

end WV.ClientData
