/-
Shared plumbing for the executable models: bytes as `List Nat` (each element a
byte value; Python `bytes` are always < 256, the models never create larger
values from well-formed input), hex transport encoding for the line protocol,
token helpers.  Import-free on purpose: the driver links as a `lean_exe`.
-/
namespace WV

abbrev Bytes := List Nat

def hexDigit (n : Nat) : Char :=
  if n < 10 then Char.ofNat (48 + n) else Char.ofNat (87 + n)

def hexVal? (c : Char) : Option Nat :=
  if '0' ≤ c ∧ c ≤ '9' then some (c.toNat - 48)
  else if 'a' ≤ c ∧ c ≤ 'f' then some (c.toNat - 87)
  else if 'A' ≤ c ∧ c ≤ 'F' then some (c.toNat - 55)
  else none

/-- bytes → lowercase hex; the empty byte string is written `-` so that it stays a token -/
def toHex (b : Bytes) : String :=
  if b.isEmpty then "-" else
  String.ofList (b.foldr (fun x acc => hexDigit (x / 16 % 16) :: hexDigit (x % 16) :: acc) [])

def fromHexChars : List Char → Option Bytes
  | [] => some []
  | [_] => none
  | a :: b :: rest => do
    let x ← hexVal? a
    let y ← hexVal? b
    let r ← fromHexChars rest
    pure ((x * 16 + y) :: r)

def fromHex? (s : String) : Option Bytes :=
  if s == "-" then some [] else fromHexChars s.toList

/-- split a protocol line into space-separated tokens (no empty tokens) -/
def tokens (s : String) : List String :=
  (s.splitOn " ").filter (fun t => t != "")

def natList? (ts : List String) : Option (List Nat) :=
  ts.mapM (fun t => t.toNat?)

def showNats (l : List Nat) : String :=
  " ".intercalate (l.map toString)

/-- UTF-8 bytes of a string as `Bytes` -/
def utf8 (s : String) : Bytes := s.toUTF8.toList.map (·.toNat)

def strOfHex? (s : String) : Option String := do
  let b ← fromHex? s
  let ba : ByteArray := ⟨(b.map (fun n => n.toUInt8)).toArray⟩
  String.fromUTF8? ba

def hexOfStr (s : String) : String := toHex (utf8 s)

/-- generic fold driver: run `step` over all lines, collecting one output line per input line -/
def runLines {σ : Type} (step : σ → String → σ × String) (init : σ) (lines : List String) : List String :=
  let rec go (s : σ) (ls : List String) (acc : List String) : List String :=
    match ls with
    | [] => acc.reverse
    | l :: rest =>
      let (s', out) := step s l
      go s' rest (out :: acc)
  go init lines []

end WV
