import WV.Model.ClientData

/-!
# C18 — the error path of the client (`WV.C18`)

Two things the closed system of `WV.ClientEnv` does not contain, because its server is conformant and C14 proves
that no handler of it ever fails:

1. **A server frame the client cannot process.**  `RendezvousConnector.ws_message` is

       msg = bytes_to_dict(payload); … msg["type"] …; meth = getattr(self, "_response_handle_" + mtype, None)
       if not meth: log.err(_UnknownMessageTypeError); return
       try: return meth(msg)
       except Exception as e: log.err(e); self._B.error(e); raise

   so there are three kinds of unusable frame (`FrameFault`): the handler raises before any machine is reached
   (a field is missing or has the wrong type) — `Boss.error(e)` is called and the exception goes on to the caller;
   the frame fails *before* the `try` (not JSON, not an object, no `type`) — nothing is told to anybody; the type
   is unknown — logged and ignored.  `faultStep` is that code on top of `Client.guarded`; the driver `C18E` is the
   `CLIENT` driver plus the three op lines, so that the correspondence runs inject such frames at any moment of a
   run of the real client (also while it is closing and after it has closed) and compare state and outputs.

2. **The Boss under every input sequence whatsoever** (`BMon`, `bossFeed`): C18's clauses "closed at most once" and
   "closed last" do not depend on who calls the Boss or when — `Boss.error` from the connector, a re-entrant
   application inside a callback, the Terminator finishing late.  The executable part (what each output hands to
   the application, the monitor) is here; the semantics with arbitrary nesting and the proof are in
   `WV.Proofs.C18`.
-/
namespace WV.C18
open WV WV.Client WV.Gen

/-! ## 1. unusable frames -/

inductive FrameFault where
  | handler   -- `_response_handle_<type>` raises: inside the `try` ⇒ `Boss.error(e)`, then re-raised
  | raw       -- `bytes_to_dict` / `msg["type"]` / the `getattr` raise: outside the `try`
  | unknown   -- no handler of that name: `log.err`, `return`
  deriving DecidableEq, Repr, Inhabited

/-- the exception value is opaque at this level (the frame's own `KeyError` / `AssertionError` / …) -/
def frameExn : Exn := .assertion "frame"

def faultStep (c : Ctl) : FrameFault → Ctl × List Obs × Outcome
  | .handler => Client.guarded c [(.raise frameExn, {})]
  | .raw => (c, [], .internal frameExn)
  | .unknown => (c, [], .ok)

/-! ### driver `C18E` = `CLIENT` + `badframe` / `rawframe` / `unkframe` -/

def fault? : List String → Option FrameFault
  | ["badframe"] => some .handler
  | ["rawframe"] => some .raw
  | ["unkframe"] => some .unknown
  | _ => none

def showOutcomeE : Outcome → String
  | .internal _ => "internal:frame"
  | oc => ClientData.showOutcome oc

def drvStep (s : ClientData.Conc) (line : String) : ClientData.Conc × String :=
  match fault? (tokens line) with
  | some f =>
    let (ctl', obs, oc) := faultStep s.ctl f
    -- no data-layer bookkeeping can be involved: the frame never reaches a machine other than the Boss
    let r := obs.foldl (ClientData.refine1 (.plain .ack)) { d := s.data }
    ({ ctl := ctl', data := r.d }, s!"{showOutcomeE oc} | {ClientData.showStates ctl'} | {" ".intercalate r.out.reverse}")
  | none => ClientData.drvStep s line

def driver (lines : List String) : List String := runLines drvStep {} lines

/-! ## 2. what the Boss hands to the application -/

/-- application-visible notifications, by kind -/
inductive Note where
  | code | key | verifier | versions | received | closed
  deriving DecidableEq, Repr, Inhabited

/-- the `self._W.*` call of each Boss output (none: the output tells the application nothing) -/
def emits : Boss.Output → Option Note
  | .do_got_code => some .code
  | .W_got_key => some .key
  | .W_got_verifier => some .verifier
  | .process_version => some .versions
  | .W_received => some .received
  | .W_close_with_error => some .closed
  | .W_closed => some .closed
  | .D_got_key | .D_received_dilate | .S_send
  | .close_error | .close_happy | .close_lonely | .close_scared | .close_unwelcome
  | .send_status_closed | .send_status_confirmed_key | .send_status_peer_key => none

/-- the façade method behind a note (name of the callee in the generated skeletons) -/
def Note.callee : Note → String
  | .code => "_W.got_code" | .key => "_W.got_key" | .verifier => "_W.got_verifier"
  | .versions => "_W.got_versions" | .received => "_W.received" | .closed => "_W.closed"

def quiet (os : List Boss.Output) : Bool := os.all (fun o => (emits o).isNone)

/-- monitor of the two clauses -/
structure BMon where
  closedSeen : Bool := false
  closedTwice : Bool := false    -- a second `closed`
  afterClosed : Bool := false    -- any notification after `closed` (a second `closed` included)
  deriving DecidableEq, Repr, Inhabited

def note (m : BMon) : Option Note → BMon
  | none => m
  | some .closed => { closedSeen := true, closedTwice := m.closedTwice || m.closedSeen, afterClosed := m.afterClosed || m.closedSeen }
  | some _ => { m with afterClosed := m.afterClosed || m.closedSeen }

def BMon.ok (m : BMon) : Bool := !m.closedTwice && !m.afterClosed

/-- the two facts about the generated table everything rests on:
    * a row out of `S4_closed` stays there and tells the application nothing;
    * in every row only the FIRST output may tell the application something (so nothing a callback re-enters can get
      between the state change and a later notification of the same row), and a row that notifies `closed` enters
      `S4_closed` -/
abbrev Table := Boss.State → Boss.Input → Option (Boss.State × List Boss.Output)

def rowOK (T : Table) (s : Boss.State) (i : Boss.Input) : Bool :=
  match T s i with
  | none => true
  | some (s1, os) =>
    quiet os.tail &&
    (match os.head? with
     | some o => emits o != some .closed || s1 == .S4_closed
     | none => true) &&
    (s != .S4_closed || (s1 == .S4_closed && quiet os))

def tableOKof (T : Table) : Bool := Boss.State.all.all (fun s => Boss.Input.all.all (fun i => rowOK T s i))

/-- … of the table generated from the working tree -/
def tableOK : Bool := tableOKof Boss.table

/-- flat executable run (no nesting): feed inputs one after the other, outputs in order — used by the examples and
    by the harness-independent sanity checks; the nested semantics is `WV.Proofs.C18.Run` -/
def bossFeed (T : Table) : Boss.State → BMon → List Boss.Input → Boss.State × BMon
  | s, m, [] => (s, m)
  | s, m, i :: rest =>
    match T s i with
    | none => bossFeed T s m rest
    | some (s1, os) => bossFeed T s1 (os.foldl (fun m o => note m (emits o)) m) rest

end WV.C18
