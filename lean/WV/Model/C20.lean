import WV.Model.Basic
import WV.Gen.T_Manager
import WV.Gen.T_Connector
import WV.Gen.HintGuards

/-!
C20 — peer connection hints are untrusted.

Model of `src/wormhole/_hints.py` (`parse_tcp_v1_hint`, `parse_hint`, `encode_hint`,
`endpoint_from_hint_obj`, `describe_hint_obj`), `transit.py` (`Common.add_connection_hints`,
the dialling/priority part of `Common._connect`), `_dilation/manager.py` (`Manager.use_hints`,
reached through the *generated* `rx_HINTS` rows) and `_dilation/connector.py`
(`Connector._use_hints`, `_schedule_connection`, reached through the generated `got_hints` rows).

Python's dynamic typing is explicit: every value the peer controls is a `J` (a decoded JSON
value), namedtuple fields hold `J`s, and each primitive the code applies to them (`.get`,
`x[k]`, `in`, iteration, hashing, `<`, `%d`) is a partial operation returning the Python
exception class.  The `isinstance` guards of the code appear as the same tests here, one by one,
so deleting a guard in the Python is the deletion of the corresponding line below.
-/
namespace WV.C20
open WV WV.Gen

/-! ## JSON values as Python sees them after `json.loads` -/

/-- a Python `float`: an exact rational `num/den` (`float.as_integer_ratio`), `inf`, `-inf`, `nan`.
    (`json.loads` accepts `NaN`, `Infinity`, `-Infinity` and overflows `1e400` to `inf`.) -/
inductive Fl where
  | fin (num : Int) (den : Nat)
  | pinf
  | ninf
  | nan
  deriving DecidableEq, Repr

inductive J where
  | null
  | bool (b : Bool)
  | int (n : Int)
  | float (f : Fl)
  | str (s : String)
  | arr (xs : List J)
  | obj (kvs : List (String × J))

inductive Err where
  | attributeError
  | typeError
  | keyError
  | valueError
  | noTransition
  | transitError        -- `TransitError("No contenders for connection")`: a designed outcome, not a crash
  deriving DecidableEq, Repr

def Err.name : Err → String
  | .attributeError => "AttributeError" | .typeError => "TypeError" | .keyError => "KeyError"
  | .valueError => "ValueError" | .noTransition => "NoTransition" | .transitError => "TransitError"

/-! ### `isinstance` -/

def J.isDict : J → Bool | .obj _ => true | _ => false
def J.isList : J → Bool | .arr _ => true | _ => false
def J.isStr : J → Bool | .str _ => true | _ => false
def J.isBool : J → Bool | .bool _ => true | _ => false
/-- `isinstance(x, int)`: **true for `bool`** (`bool` is a subclass of `int`) -/
def J.isInt : J → Bool | .int _ => true | .bool _ => true | _ => false
/-- `isinstance(x, (int, float))` -/
def J.isIntOrFloat : J → Bool | .int _ => true | .bool _ => true | .float _ => true | _ => false
/-- `x == "literal"` / `x in ["a", "b"]` for an arbitrary value `x`: never raises, false unless a `str` -/
def J.eqStr (x : J) (lit : String) : Bool := match x with | .str s => s == lit | _ => false

/-! ### dict / sequence primitives -/

def lookup (k : String) : List (String × J) → Option J
  | [] => none
  | (k', v) :: rest => if k' == k then some v else lookup k rest

/-- `x.get(k, dflt)`; a non-dict has no `.get` -/
def pyGet (x : J) (k : String) (dflt : J) : Except Err J :=
  match x with
  | .obj kvs => .ok ((lookup k kvs).getD dflt)
  | _ => .error .attributeError

/-- `k in x` for the dicts it is applied to; on other values the code has already failed at `.get`
    (scalars are not iterable: `TypeError`; we do not model substring / element search) -/
def pyContains (x : J) (k : String) : Except Err Bool :=
  match x with
  | .obj kvs => .ok (lookup k kvs).isSome
  | _ => .error .typeError

/-- `x[k]` with a string key -/
def pyIndex (x : J) (k : String) : Except Err J :=
  match x with
  | .obj kvs => match lookup k kvs with | some v => .ok v | none => .error .keyError
  | _ => .error .typeError

/-- `for y in x`: lists give their items, strings their characters, dicts their keys -/
def pyIter (x : J) : Except Err (List J) :=
  match x with
  | .arr xs => .ok xs
  | .str s => .ok (s.toList.map fun c => J.str (String.singleton c))
  | .obj kvs => .ok (kvs.map fun kv => J.str kv.1)
  | _ => .error .typeError

/-! ### numbers, hashing, ordering, equality -/

/-- numeric value of `bool`/`int`/`float` -/
def J.num? : J → Option Fl
  | .bool b => some (.fin (if b then 1 else 0) 1)
  | .int n => some (.fin n 1)
  | .float f => some f
  | _ => none

/-- Python `<` on numbers (exact, also between `int` and `float`); every comparison with `nan` is false -/
def Fl.lt : Fl → Fl → Bool
  | .nan, _ => false
  | _, .nan => false
  | .ninf, .ninf => false
  | .ninf, _ => true
  | _, .ninf => false
  | .pinf, _ => false
  | _, .pinf => true
  | .fin a b, .fin c d => decide (a * (d : Int) < c * (b : Int))

/-- equality as containers see it (`x is y or x == y`).  `json.loads` returns one shared `nan`
    object, so inside `set`/`dict`/tuple comparison `nan` equals `nan`. -/
def Fl.same : Fl → Fl → Bool
  | .nan, .nan => true
  | .pinf, .pinf => true
  | .ninf, .ninf => true
  | .fin a b, .fin c d => decide (a * (d : Int) = c * (b : Int))
  | _, _ => false

/-- `hash(x)`: lists and dicts are unhashable -/
def pyHash : J → Except Err Unit
  | .arr _ => .error .typeError
  | .obj _ => .error .typeError
  | _ => .ok ()

/-- `a < b`.  Numbers with numbers, strings with strings (code-point order); everything else is
    `TypeError`.  (Python also orders list with list; wherever this model compares two values the
    code hashes the same values right afterwards, which is `TypeError` for a list anyway.) -/
def pyLt (a b : J) : Except Err Bool :=
  match a.num?, b.num? with
  | some x, some y => .ok (x.lt y)
  | _, _ =>
    match a, b with
    | .str s, .str t => .ok (decide (s < t))
    | _, _ => .error .typeError

/-- `a is b or a == b`; never raises; values of different kinds are unequal (`1 == True`, `1 == 1.0` hold) -/
def pySame (a b : J) : Bool :=
  match a.num?, b.num? with
  | some x, some y => x.same y
  | _, _ =>
    match a, b with
    | .str s, .str t => s == t
    | .null, .null => true
    | _, _ => false

/-! ## hint objects -/

inductive Kind where
  | direct   -- `DirectTCPV1Hint`
  | tor      -- `TorTCPV1Hint`
  deriving DecidableEq, Repr

/-- a `DirectTCPV1Hint` / `TorTCPV1Hint` namedtuple.  The fields hold whatever was put in. -/
structure Tcp where
  kind : Kind
  hostname : J
  port : J
  priority : J

inductive HintObj where
  | tcp (t : Tcp)
  | relay (hints : List Tcp)     -- `RelayV1Hint(hints=…)`

/-- tuple `<` of two namedtuples `(hostname, port, priority)`: first position that is not `==`
    decides with `<`; the class of the namedtuple plays no role -/
def tupleLt (a b : Tcp) : Except Err Bool :=
  if !pySame a.hostname b.hostname then pyLt a.hostname b.hostname
  else if !pySame a.port b.port then pyLt a.port b.port
  else if !pySame a.priority b.priority then pyLt a.priority b.priority
  else .ok false

/-- tuple `==` (what `set`/`dict` use after the hash matched): `DirectTCPV1Hint("h",1,0.0) ==
    TorTCPV1Hint("h",1,0)` is **True** -/
def tupleSame (a b : Tcp) : Bool :=
  pySame a.hostname b.hostname && pySame a.port b.port && pySame a.priority b.priority

def tupleHash (a : Tcp) : Except Err Unit := do
  pyHash a.hostname
  pyHash a.port
  pyHash a.priority

def hashAll : List Tcp → Except Err Unit
  | [] => .ok ()
  | t :: ts => do tupleHash t; hashAll ts

/-- `RelayV1Hint(tuple) == RelayV1Hint(tuple)` -/
def relaySame : List Tcp → List Tcp → Bool
  | [], [] => true
  | a :: as, b :: bs => tupleSame a b && relaySame as bs
  | _, _ => false

/-! ### `sorted` -/

/-- insert `x` (which preceded all of `ys` in the input) into the sorted `ys`: it passes only the
    elements that are strictly smaller (`y < x`), so equal elements keep their order (stable) -/
def insertBy {α : Type} (lt : α → α → Except Err Bool) (x : α) : List α → Except Err (List α)
  | [] => .ok [x]
  | y :: ys => do
    if (← lt y x) then
      let r ← insertBy lt x ys
      pure (y :: r)
    else pure (x :: y :: ys)

/-- `sorted(xs)`: a stable sort using only `<`; the first comparison that raises ends it -/
def sortBy {α : Type} (lt : α → α → Except Err Bool) : List α → Except Err (List α)
  | [] => .ok []
  | x :: xs => do
    let s ← sortBy lt xs
    insertBy lt x s

/-- `sorted(xs, reverse=True)`: CPython reverses, sorts, reverses (stability is kept) -/
def sortDesc {α : Type} (lt : α → α → Except Err Bool) (xs : List α) : Except Err (List α) := do
  let s ← sortBy lt xs.reverse
  pure s.reverse

/-- `s.add(x)` after the hash succeeded: kept only if no equal element is there (the first one stays) -/
def setAdd {α : Type} (same : α → α → Bool) (x : α) (s : List α) : List α :=
  if s.any (fun y => same y x) then s else s ++ [x]

/-! ## `_hints.py` -/

/-- `parse_tcp_v1_hint(hint)`; `ok none` = `return None` -/
def parseTcpV1Hint (hint : J) : Except Err (Option Tcp) := do
  if !hint.isDict then return none                                   -- `if not isinstance(hint, dict)`
  let hintType ← pyGet hint "type" (.str "")
  if !(hintType.eqStr "direct-tcp-v1" || hintType.eqStr "tor-tcp-v1") then return none
  -- `"hostname" in hint and isinstance(hint["hostname"], str)`
  let hostOk ← (do
    if !(← pyContains hint "hostname") then pure false
    else pure (← pyIndex hint "hostname").isStr : Except Err Bool)
  if !hostOk then return none
  -- `"port" in hint and isinstance(hint["port"], int) and not isinstance(hint["port"], bool)`
  let portOk ← (do
    if !(← pyContains hint "port") then pure false
    else if !(← pyIndex hint "port").isInt then pure false
    else pure (!(← pyIndex hint "port").isBool) : Except Err Bool)
  if !portOk then return none
  let priority ← pyGet hint "priority" (.float (.fin 0 1))          -- `hint.get("priority", 0.0)`
  -- `isinstance(priority, bool) or not isinstance(priority, (int, float))`
  if priority.isBool || !priority.isIntOrFloat then return none
  let hostname ← pyIndex hint "hostname"
  let port ← pyIndex hint "port"
  if hintType.eqStr "direct-tcp-v1" then
    return some { kind := .direct, hostname := hostname, port := port, priority := priority }
  else
    return some { kind := .tor, hostname := hostname, port := port, priority := priority }

/-- `[parse_tcp_v1_hint(rh) for rh in sub_hints]` filtered for truthiness (a 3-field namedtuple is
    always truthy, `None` is dropped) -/
def parseSubHints : List J → Except Err (List Tcp)
  | [] => .ok []
  | rh :: rest => do
    let r ← parseTcpV1Hint rh
    let rs ← parseSubHints rest
    pure (match r with | some t => t :: rs | none => rs)

/-- `parse_hint(hint_struct)` -/
def parseHint (hintStruct : J) : Except Err (Option HintObj) := do
  if !hintStruct.isDict then return none                             -- `if not isinstance(hint_struct, dict)`
  let hintType ← pyGet hintStruct "type" (.str "")
  if hintType.eqStr "relay-v1" then
    let subHints0 ← pyGet hintStruct "hints" (.arr [])               -- `.get("hints", [])`
    let subHints := if !subHints0.isList then J.arr [] else subHints0 -- `if not isinstance(sub_hints, list)`
    let items ← pyIter subHints
    let rhints ← parseSubHints items
    return some (.relay rhints)
  let r ← parseTcpV1Hint hintStruct
  return r.map .tcp

def encodeTcp (typ : String) (t : Tcp) : J :=
  .obj [("type", .str typ), ("priority", t.priority), ("hostname", t.hostname), ("port", t.port)]

/-- `encode_hint(h)` (the `ValueError` branch needs an object of another class; `HintObj` has none) -/
def encodeHint : HintObj → J
  | .tcp t => match t.kind with
    | .direct => encodeTcp "direct-tcp-v1" t
    | .tor => encodeTcp "tor-tcp-v1" t
  | .relay hs => .obj [("type", .str "relay-v1"), ("hints", .arr (hs.map (encodeTcp "direct-tcp-v1")))]

/-- the harness' stand-in for `tor.stream_via`: raises `ValueError` for hosts starting with `10.` -/
def torRejects (host : String) : Bool := "10.".toList.isPrefixOf host.toList

/-- `endpoint_from_hint_obj(hint, tor, reactor)`: the `(host, port)` the endpoint is built with,
    `none` = `None`.  `isIPAddress`/`str.startswith` on a non-`str` is `AttributeError`. -/
def endpointFromHintObj (tor : Bool) (t : Tcp) : Except Err (Option (J × J)) :=
  if tor then
    match t.hostname with
    | .str s => if torRejects s then .ok none else .ok (some (t.hostname, t.port))
    | _ => .error .attributeError
  else
    match t.kind with
    | .direct =>
      match t.hostname with
      | .str _ => .ok (some (t.hostname, t.port))
      | _ => .error .attributeError
    | .tor => .ok none

/-- `describe_hint_obj`: `"tcp:%s:%d" % (hint.hostname, hint.port)`.  `%d` needs a number; `%s` of the
    peer-chosen hostname never raises, whatever characters it holds (pinned by the `return …` rows of
    `describe_hint_obj` in `expectedGuards`: no encoding / conversion of the hostname on this path) -/
def describeHintObj (t : Tcp) : Except Err Unit :=
  match t.port.num? with
  | some _ => .ok ()
  | none => .error .typeError

/-! ## `transit.py` -/

structure Transit where
  tor : Bool
  listener : Bool                     -- `self._listener_d` is set (a contender exists without any hint)
  theirDirect : List Tcp              -- `_their_direct_hints`
  ourRelays : List (List Tcp)         -- `_our_relay_hints`: a `set` of `RelayV1Hint(tuple)`, insertion order

/-- body of the `for h in hints` loop of `add_connection_hints` -/
def addOneHint (st : Transit) (h : J) : Except Err Transit := do
  if !h.isDict then return st                                        -- `if not isinstance(h, dict): continue`
  let hintType ← pyGet h "type" (.str "")
  if hintType.eqStr "direct-tcp-v1" || hintType.eqStr "tor-tcp-v1" then
    match (← parseTcpV1Hint h) with
    | some dh => return { st with theirDirect := st.theirDirect ++ [dh] }
    | none => return st
  else if hintType.eqStr "relay-v1" then
    let subHints0 ← pyGet h "hints" (.arr [])
    let subHints := if !subHints0.isList then J.arr [] else subHints0
    let items ← pyIter subHints
    let relayHints ← parseSubHints items
    if relayHints.isEmpty then return st
    let sorted ← sortBy tupleLt relayHints                           -- `tuple(sorted(relay_hints))`
    hashAll sorted                                                   -- `set.add` hashes the RelayV1Hint
    return { st with ourRelays := setAdd relaySame sorted st.ourRelays }
  else return st

/-- the loop; an exception leaves the hints accepted so far in place -/
def addHintList : Transit → List J → Transit × Option Err
  | st, [] => (st, none)
  | st, h :: hs =>
    match addOneHint st h with
    | .ok st' => addHintList st' hs
    | .error e => (st, some e)

/-- `add_connection_hints(hints)` for an arbitrary value in `hints` position -/
def addConnectionHints (st : Transit) (hints : J) : Transit × Option Err :=
  match pyIter hints with
  | .ok items => addHintList st items
  | .error e => (st, some e)

structure Dial where
  delay : Nat          -- in units of `RELAY_DELAY`
  relay : Bool
  host : J
  port : J

/-- the direct part of `_connect` -/
def dialDirect (tor : Bool) : List Tcp → Except Err (List Dial)
  | [] => .ok []
  | t :: ts => do
    let ep ← endpointFromHintObj tor t
    match ep with
    | none => dialDirect tor ts
    | some (h, p) =>
      describeHintObj t
      let rest ← dialDirect tor ts
      pure ({ delay := 0, relay := false, host := h, port := p } :: rest)

/-- `prioritized_relays`: dict priority → set of hint objects, as an association list -/
abbrev Buckets := List (J × List Tcp)

/-- `if priority not in d: d[priority] = set()` then `d[priority].add(hint_obj)` (both hashes done by the caller) -/
def bucketAdd (t : Tcp) : Buckets → Buckets
  | [] => [(t.priority, [t])]
  | (k, s) :: rest =>
    if pySame k t.priority then (k, setAdd tupleSame t s) :: rest
    else (k, s) :: bucketAdd t rest

/-- `d[k]` for a key that came out of `d` -/
def bucketLookup (b : Buckets) (k : J) : List Tcp :=
  match b.find? (fun kv => pySame kv.1 k) with
  | some kv => kv.2
  | none => []

def bucketRelay : Buckets → List Tcp → Except Err Buckets
  | b, [] => .ok b
  | b, t :: ts => do
    pyHash t.priority                      -- `priority not in prioritized_relays`
    tupleHash t                            -- `.add(hint_obj)`
    bucketRelay (bucketAdd t b) ts

def bucketAll : Buckets → List (List Tcp) → Except Err Buckets
  | b, [] => .ok b
  | b, r :: rs => do
    let b' ← bucketRelay b r
    bucketAll b' rs

def dialBucket (tor : Bool) (delay : Nat) : List Tcp → Except Err (List Dial)
  | [] => .ok []
  | t :: ts => do
    let ep ← endpointFromHintObj tor t
    match ep with
    | none => dialBucket tor delay ts
    | some (h, p) =>
      describeHintObj t
      let rest ← dialBucket tor delay ts
      pure ({ delay := delay, relay := true, host := h, port := p } :: rest)

/-- `for priority in sorted(prioritized_relays, reverse=True)`: one `RELAY_DELAY` later per priority -/
def dialBuckets (tor : Bool) (b : Buckets) : Nat → List J → Except Err (List Dial)
  | _, [] => .ok []
  | delay, k :: ks => do
    let ds ← dialBucket tor delay (bucketLookup b k)
    let rest ← dialBuckets tor b (delay + 1) ks
    pure (ds ++ rest)

/-- `_connect()`: the connections started (direct now, relays after their delay) or the exception -/
def connect (st : Transit) : Except Err (List Dial) := do
  let direct ← dialDirect st.tor st.theirDirect
  let relayDelay := if direct.isEmpty then 0 else 1
  let b ← bucketAll [] st.ourRelays
  let keys ← sortDesc pyLt (b.map (·.1))
  let relays ← dialBuckets st.tor b relayDelay keys
  if !st.listener && direct.isEmpty && relays.isEmpty then throw .transitError
  pure (direct ++ relays)

/-! ### what becomes of the attempts: `_start_connector` and the race in `connect()`

`_start_connector(ep, description)` returns `ep.connect(f)` with exactly one callback chained,
`p.startNegotiation()` (pinned in `expectedGuards`): the contender's Deferred succeeds with the
negotiated `Connection` and *fails whenever the attempt fails* — at TCP level (refused, no route,
timeout, DNS) or in the handshake.  `connect()` is the race of those contenders (plus the listener):
it fires with the first success, fails once every contender has failed, and is pending otherwise. -/

/-- what happens to one started connection attempt -/
inductive Fate where
  | pending          -- no answer yet
  | tcpFail          -- `clientConnectionFailed`: refused / unreachable / timed out / lookup failed
  | handshakeFail    -- connected, then `BadHandshake` or connection lost before "go"
  | connected        -- connected and negotiated
  deriving DecidableEq, Repr

inductive Outcome where
  | pending
  | failed
  | connection (i : Nat)     -- `connect()` fired with the Connection of attempt `i`
  deriving DecidableEq, Repr

/-- the contender made by `_start_connector` for an attempt: `some true` = fired with a Connection,
    `some false` = failed, `none` = still pending.  A failed attempt is a failed contender. -/
def contender : Fate → Option Bool
  | .pending => none
  | .tcpFail => some false
  | .handshakeFail => some false
  | .connected => some true

def firstWinner : Nat → List Fate → Option Nat
  | _, [] => none
  | i, f :: fs => if contender f = some true then some i else firstWinner (i + 1) fs

/-- `connect()` once the attempts (in the order they were started) have met these fates;
    `listener` = an inbound-connection contender that is still waiting -/
def raceOutcome (listener : Bool) (fates : List Fate) : Outcome :=
  match firstWinner 0 fates with
  | some i => .connection i
  | none => if listener || fates.any (fun f => (contender f).isNone) then .pending else .failed

/-- the relay this side was configured with (`parse_hint_argv("tcp:relay.example:4001")`) -/
def ownRelay : List Tcp :=
  [{ kind := .direct, hostname := .str "relay.example", port := .int 4001, priority := .float (.fin 0 1) }]

def Transit.init (tor listener ownRelayCfg : Bool) : Transit :=
  { tor := tor, listener := listener, theirDirect := [], ourRelays := if ownRelayCfg then [ownRelay] else [] }

/-! ## dilation: `Manager.use_hints`, `Connector._use_hints` -/

/-- `filter(lambda h: h, [parse_hint(hs) for hs in …])`: namedtuples are truthy (a `RelayV1Hint`
    has one field, so even one with no usable sub-hints stays) -/
def parseHintList : List J → Except Err (List HintObj)
  | [] => .ok []
  | hs :: rest => do
    let r ← parseHint hs
    let rs ← parseHintList rest
    pure (match r with | some h => h :: rs | none => rs)

/-- the body of `Manager.use_hints(hint_message)` up to the call of `connector.got_hints` -/
def managerUseHints (hintMessage : J) : Except Err (List HintObj) := do
  let hints ← pyIndex hintMessage "hints"          -- `hint_message["hints"]` (not `.get`)
  let items ← pyIter hints
  parseHintList items

structure Sched where
  delay : Nat          -- in units of `RELAY_DELAY`
  relay : Bool
  kind : Kind
  host : J
  port : J
  ep : Bool            -- `endpoint_from_hint_obj` returned an endpoint (else `_connect(None, …)` fails later, logged)

/-- `_schedule_connection(delay, h, is_relay)` -/
def scheduleConnection (tor : Bool) (delay : Nat) (relay : Bool) (t : Tcp) : Except Err Sched := do
  let ep ← endpointFromHintObj tor t
  describeHintObj t
  pure { delay := delay, relay := relay, kind := t.kind, host := t.hostname, port := t.port, ep := ep.isSome }

/-- `direct = defaultdict(list)`: priority → hints in arrival order -/
def directAdd (t : Tcp) : Buckets → Buckets
  | [] => [(t.priority, [t])]
  | (k, l) :: rest =>
    if pySame k t.priority then (k, l ++ [t]) :: rest
    else (k, l) :: directAdd t rest

/-- first loop of `_use_hints` -/
def splitHints : List HintObj → List (List Tcp) → Buckets → Except Err (List (List Tcp) × Buckets)
  | [], relays, direct => .ok (relays, direct)
  | .relay hs :: rest, relays, direct => splitHints rest (relays ++ [hs]) direct
  | .tcp t :: rest, relays, direct => do
    pyHash t.priority                                  -- `direct[h.priority]`
    splitHints rest relays (directAdd t direct)

def schedDirectBucket (tor : Bool) : List Tcp → Except Err (List Sched)
  | [] => .ok []
  | t :: ts =>
    if t.kind == .tor && !tor then schedDirectBucket tor ts       -- `isinstance(h, TorTCPV1Hint) and not self._tor`
    else do
      -- `f"{h.hostname}:{h.port}"` never raises
      let s ← scheduleConnection tor 0 false t
      let rest ← schedDirectBucket tor ts
      pure (s :: rest)

def schedDirect (tor : Bool) (direct : Buckets) : List J → Except Err (List Sched)
  | [] => .ok []
  | p :: ps => do
    let a ← schedDirectBucket tor (bucketLookup direct p)
    let rest ← schedDirect tor direct ps
    pure (a ++ rest)

def schedRelayHints (tor : Bool) (delay : Nat) : List Tcp → Except Err (List Sched)
  | [] => .ok []
  | t :: ts => do
    let s ← scheduleConnection tor delay true t
    let rest ← schedRelayHints tor delay ts
    pure (s :: rest)

def schedRelays (tor : Bool) (delay : Nat) : List (List Tcp) → Except Err (List Sched)
  | [] => .ok []
  | r :: rs => do
    let a ← schedRelayHints tor delay r
    let rest ← schedRelays tor delay rs
    pure (a ++ rest)

/-- `Connector._use_hints(hints)`: the `_schedule_connection` calls, in order -/
def connectorUseHints (tor noListen : Bool) (hints : List HintObj) : Except Err (List Sched) := do
  let (relays, direct) ← splitHints hints [] []
  let priorities ← sortDesc pyLt (direct.map (·.1))     -- `sorted(set(direct.keys()), reverse=True)`
  let ds ← schedDirect tor direct priorities
  let madeDirect := !ds.isEmpty
  let delay := if madeDirect && !noListen then 1 else 0
  let rs ← schedRelays tor delay relays
  pure (ds ++ rs)

structure Dil where
  mgr : Manager.State
  con : Connector.State
  tor : Bool
  noListen : Bool
  sched : List Sched          -- every `_schedule_connection` call so far

/-- `Connector.got_hints(hint_objs)` through the generated table -/
def connectorGotHints (d : Dil) (hints : List HintObj) : Except Err Dil :=
  match Connector.table d.con .got_hints with
  | none => .error .noTransition
  | some (c', outs) =>
    if outs.contains .use_hints then do
      let s ← connectorUseHints d.tor d.noListen hints
      pure { d with con := c', sched := d.sched ++ s }
    else .ok { d with con := c' }

/-- `Manager.rx_HINTS(message)` through the generated table -/
def rxHints (d : Dil) (message : J) : Except Err Dil :=
  match Manager.table d.mgr .rx_HINTS with
  | none => .error .noTransition
  | some (m', outs) =>
    if outs.contains .use_hints then do
      let hs ← managerUseHints message
      connectorGotHints { d with mgr := m' } hs
    else .ok { d with mgr := m' }

/-- `Connector.start()` with a configured relay: `_use_hints(self._transit_relays)` -/
def Dil.init (tor noListen ownRelayCfg : Bool) (mgr : Manager.State) : Except Err Dil := do
  let s ← if ownRelayCfg then connectorUseHints tor noListen [.relay ownRelay] else pure []
  pure { mgr := mgr, con := Connector.init, tor := tor, noListen := noListen, sched := s }

/-! ## what the translator saw in the source (tie: `Props.C20.guards_agree`)

Every `if` test, every access to peer-controlled data (`.get`, `x["k"]`, `"k" in x`), every loop
header, `sorted`/`filter` call, `raise` and every returned expression of the ten modelled functions
(`describe_hint_obj` included: its rows pin that the hostname is formatted with a plain `%s`), in
source order, as `ast.unparse` prints them.  The model above was written
against exactly this list; `tools/extract.py` regenerates `Gen.HintGuards.table` from the working
tree on every run and `guards_agree` compares the two. -/
def expectedGuards : List (String × List String) := [
  ("parse_tcp_v1_hint", [
    "if not isinstance(hint, dict)",
    "return None",
    "get hint.get('type', '')",
    "if hint_type not in ['direct-tcp-v1', 'tor-tcp-v1']",
    "return None",
    "if not ('hostname' in hint and isinstance(hint['hostname'], str))",
    "in 'hostname' in hint",
    "index hint['hostname']",
    "return None",
    "if not ('port' in hint and isinstance(hint['port'], int) and (not isinstance(hint['port'], bool)))",
    "in 'port' in hint",
    "index hint['port']",
    "index hint['port']",
    "return None",
    "get hint.get('priority', 0.0)",
    "if isinstance(priority, bool) or not isinstance(priority, (int, float))",
    "return None",
    "if hint_type == 'direct-tcp-v1'",
    "return DirectTCPV1Hint(hint['hostname'], hint['port'], priority)",
    "index hint['hostname']",
    "index hint['port']",
    "return TorTCPV1Hint(hint['hostname'], hint['port'], priority)",
    "index hint['hostname']",
    "index hint['port']"]),
  ("parse_hint", [
    "if not isinstance(hint_struct, dict)",
    "return None",
    "get hint_struct.get('type', '')",
    "if hint_type == 'relay-v1'",
    "get hint_struct.get('hints', [])",
    "if not isinstance(sub_hints, list)",
    "call filter(lambda h: h, [parse_tcp_v1_hint(rh) for rh in sub_hints])",
    "for rh in sub_hints",
    "return RelayV1Hint(list(rhints))",
    "return parse_tcp_v1_hint(hint_struct)"]),
  ("encode_hint", [
    "if isinstance(h, DirectTCPV1Hint)",
    "return {'type': 'direct-tcp-v1', 'priority': h.priority, 'hostname': h.hostname, 'port': h.port}",
    "if isinstance(h, RelayV1Hint)",
    "for rh in h.hints",
    "index rhint['hints']",
    "return rhint",
    "if isinstance(h, TorTCPV1Hint)",
    "return {'type': 'tor-tcp-v1', 'priority': h.priority, 'hostname': h.hostname, 'port': h.port}",
    "raise ValueError('unknown hint type', h)"]),
  ("endpoint_from_hint_obj", [
    "if tor",
    "if isinstance(hint, (DirectTCPV1Hint, TorTCPV1Hint))",
    "return tor.stream_via(hint.hostname, hint.port)",
    "return None",
    "return None",
    "if isinstance(hint, DirectTCPV1Hint)",
    "if isIPAddress(hint.hostname)",
    "return TCP4ClientEndpoint(reactor, hint.hostname, hint.port)",
    "if isIPv6Address(hint.hostname)",
    "return TCP6ClientEndpoint(reactor, hint.hostname, hint.port)",
    "return HostnameEndpoint(reactor, hint.hostname, hint.port)",
    "return None"]),
  ("describe_hint_obj", [
    "ifexp tor",
    "if relay",
    "if isinstance(hint, DirectTCPV1Hint)",
    "return prefix + 'tcp:%s:%d' % (hint.hostname, hint.port)",
    "if isinstance(hint, TorTCPV1Hint)",
    "return prefix + 'tor:%s:%d' % (hint.hostname, hint.port)",
    "return prefix + str(hint)"]),
  ("Common.add_connection_hints", [
    "for h in hints",
    "if not isinstance(h, dict)",
    "get h.get('type', '')",
    "if hint_type in ['direct-tcp-v1', 'tor-tcp-v1']",
    "if dh",
    "if hint_type == 'relay-v1'",
    "get h.get('hints', [])",
    "if not isinstance(sub_hints, list)",
    "for rhs in sub_hints",
    "if h",
    "if relay_hints",
    "call sorted(relay_hints)"]),
  ("Common._connect", [
    "if self._listener_d",
    "for hint_obj in self._their_direct_hints",
    "if not ep",
    "for rh in self._our_relay_hints",
    "for hint_obj in rh.hints",
    "if priority not in prioritized_relays",
    "for priority in sorted(prioritized_relays, reverse=True)",
    "call sorted(prioritized_relays, reverse=True)",
    "for hint_obj in prioritized_relays[priority]",
    "if not ep",
    "if not contenders",
    "raise TransitError('No contenders for connection')",
    "return self._not_forever(2 * TIMEOUT, winner)"]),
  ("Common._start_connector", [
    "if is_relay",
    "chain d.addCallback(lambda p: p.startNegotiation())",
    "return d"]),
  ("Manager.use_hints", [
    "call filter(lambda h: h, [parse_hint(hs) for hs in hint_message['hints']])",
    "for hs in hint_message['hints']",
    "index hint_message['hints']"]),
  ("Connector._use_hints", [
    "for h in hints",
    "if isinstance(h, RelayV1Hint)",
    "call sorted(set(direct.keys()), reverse=True)",
    "for p in priorities",
    "for h in direct[p]",
    "if isinstance(h, TorTCPV1Hint) and (not self._tor)",
    "if made_direct and (not self._no_listen)",
    "for r in relays",
    "for h in r.hints"]),
  ("Connector._schedule_connection", [
    "chain d.addErrback(lambda f: f.trap(ConnectingCancelledError, ConnectionRefusedError, CancelledError, ConnectError))",
    "chain d.addErrback(lambda f: f.trap(DNSLookupError))",
    "chain d.addErrback(log.err)"]),
  ("Connector._connect", [
    "if is_relay",
    "chain p.when_disconnected().addCallback(self._pending_connections.discard)",
    "chain d.addCallback(_connected)",
    "return d"])]

/-- the status side channel of hint handling as the translator sees it (tie: `Props.C20.status_side_channel_agrees`):
    where `DilationStatus.hints` gets a value, who assigns `_latest_status`, who calls `_hint_status`, what
    `Connector._use_hints` does with `hint_status`, and the bodies of the two helpers.  `GDil.hintStatus` /
    `GDil.useHints` were written against exactly this. -/
def expectedStatusSites : List (String × String) := [
  ("_status.DilationStatus.hints (default)", "Factory(set)"),
  ("manager.Manager._hint_status", "set(hints).union(self._latest_status.hints)")]

def expectedLatestStatusAssignments : List (String × String) := [
  ("manager.Manager.__attrs_post_init__", "DilationStatus(mailbox=self._initial_mailbox_status or WormholeStatus(), generation=0)"),
  ("manager.Manager._maybe_send_status", "status_msg")]

def expectedHintStatusCallers : List (String × String) := [
  ("connector.Connector._use_hints", "self._manager._hint_status(hint_status)")]

def expectedUseHintsStatusStatements : List String := [
  "hint_status = []",
  "hint_status.append(DilationHint(f'{h.hostname}:{h.port}', True))",
  "hint_status.append(DilationHint(f'{h.hostname}:{h.port}', False))",
  "self._manager._hint_status(hint_status)"]

def expectedStatusSkeleton : List (String × List String) := [
  ("Manager._hint_status(self, hints)", [
    "self._maybe_send_status(evolve(self._latest_status, hints=set(hints).union(self._latest_status.hints)))"]),
  ("Manager._maybe_send_status(self, status_msg)", [
    "self._latest_status = status_msg",
    "if self._status is not None",
    "  self._status(status_msg)"])]

/-! ## line protocol

```
J tokens:  n | T | F | i<int> | d<num>/<den> | dinf | dninf | dnan | s<hex utf-8> | [ … ] | { k<hex> J … }
parse <J>                         -> hintobj | None | <Error>          (parse_hint)
ptcp <J>                          -> tcp | None | <Error>              (parse_tcp_v1_hint)
rt <J>                            -> hintobj of parse_hint(encode_hint(parse_hint(J)))
enc <J>                           -> J tokens of encode_hint(parse_hint(J))
tnew <tor> <listener> <ownrelay>  -> ok
tadd <J>                          -> [Error ]direct=[…] relays={…}
tconnect                          -> direct=[…] relays=[k:{…};…] | <Error>
tconnectU                         -> targets={…} | <Error>             (order-free; used when a priority is nan)
trace <listener> <fate>…          -> pending | failed | connection <i>   (fates: p t h c, in the order the attempts started)
taddU <J> / dmsgU <J>             -> order-free variants of tadd / dmsg
dnew <tor> <nolisten> <ownrelay> <manager state> <connector state> -> sched=[…]
dmsg <J>                          -> [Error ]<manager state> <connector state> sched=[…new…]
ddial                             -> dial=[…]                           (scheduled entries that have an endpoint)
ddialU                            -> targets={…}
gnew <tor> <nolisten> <ownrelay> <status callback empties the set> -> <gres>   (a Manager that has sent its PLEASE: WANTING)
gplease <L|F> | ghints <J> | greconnect | greconnecting | gmade | glost | gstop | gtick
                                  -> <Error> | <gres>
<gres> = <manager state> <connector state|-> g<connectors made> sched=[<k>:<sched>,…] dial=[<k>:<target>,…] noep=<n> st={<hex url>:<D|R>,…}
         (sched/dial/noep: what this op added, <k> = number of the Connector; st: `_latest_status.hints`)
```
-/

inductive Frame where
  | arr (acc : List J)
  | obj (acc : List (String × J)) (key : Option String)

def intOfString? (s : String) : Option Int :=
  match s.toList with
  | '-' :: rest => (String.ofList rest).toNat?.map fun n => -(n : Int)
  | _ => s.toNat?.map fun n => (n : Int)

def atom? (t : String) : Option J :=
  if t == "n" then some .null
  else if t == "T" then some (.bool true)
  else if t == "F" then some (.bool false)
  else if t == "dinf" then some (.float .pinf)
  else if t == "dninf" then some (.float .ninf)
  else if t == "dnan" then some (.float .nan)
  else match t.toList with
    | 'i' :: rest => (intOfString? (String.ofList rest)).map .int
    | 's' :: rest => (strOfHex? (String.ofList rest)).map .str
    | 'd' :: rest =>
      match (String.ofList rest).splitOn "/" with
      | [a, b] => do
        let n ← intOfString? a
        let d ← b.toNat?
        pure (.float (.fin n d))
      | _ => none
    | _ => none

/-- a finished value goes to the enclosing container, or is the result -/
def pushValue (v : J) : List Frame → Option (List Frame × Option J)
  | [] => some ([], some v)
  | .arr acc :: st => some (.arr (v :: acc) :: st, none)
  | .obj acc (some k) :: st => some (.obj ((k, v) :: acc) none :: st, none)
  | .obj _ none :: _ => none

def readJ : List String → List Frame → Option J
  | [], _ => none
  | t :: ts, st =>
    let fin (r : Option (List Frame × Option J)) : Option J :=
      match r with
      | none => none
      | some (st', some v) => if ts.isEmpty && st'.isEmpty then some v else none
      | some (st', none) => readJ ts st'
    if t == "[" then readJ ts (.arr [] :: st)
    else if t == "{" then readJ ts (.obj [] none :: st)
    else if t == "]" then
      match st with
      | .arr acc :: st' => fin (pushValue (.arr acc.reverse) st')
      | _ => none
    else if t == "}" then
      match st with
      | .obj acc none :: st' => fin (pushValue (.obj acc.reverse) st')
      | _ => none
    else match t.toList with
      | 'k' :: rest =>
        match st, strOfHex? (String.ofList rest) with
        | .obj acc none :: st', some k => readJ ts (.obj acc (some k) :: st')
        | _, _ => none
      | _ =>
        match atom? t with
        | some v => fin (pushValue v st)
        | none => none

def showFl : Fl → String
  | .fin n d => s!"d{n}/{d}"
  | .pinf => "dinf"
  | .ninf => "dninf"
  | .nan => "dnan"

mutual
  def showJ : J → String
    | .null => "n"
    | .bool true => "T"
    | .bool false => "F"
    | .int n => s!"i{n}"
    | .float f => showFl f
    | .str s => "s" ++ hexOfStr s
    | .arr xs => "[" ++ showJs xs ++ " ]"
    | .obj kvs => "{" ++ showKVs kvs ++ " }"
  def showJs : List J → String
    | [] => ""
    | x :: xs => " " ++ showJ x ++ showJs xs
  def showKVs : List (String × J) → String
    | [] => ""
    | (k, v) :: rest => " k" ++ hexOfStr k ++ " " ++ showJ v ++ showKVs rest
end

def showKind : Kind → String | .direct => "direct" | .tor => "tor"

def showTcp (t : Tcp) : String :=
  s!"{showKind t.kind}({showJ t.hostname} {showJ t.port} {showJ t.priority})"

def showHintObj : HintObj → String
  | .tcp t => showTcp t
  | .relay hs => "relay[" ++ ";".intercalate (hs.map showTcp) ++ "]"

def showTarget (h p : J) : String := showJ h ++ ":" ++ showJ p

/-- insertion sort of strings (canonical order of a printed set) -/
def insertStr (x : String) : List String → List String
  | [] => [x]
  | y :: ys => if x < y then x :: y :: ys else y :: insertStr x ys
def sortStrs : List String → List String
  | [] => []
  | x :: xs => insertStr x (sortStrs xs)

def showSet (l : List String) : String := "{" ++ ",".intercalate (sortStrs l) ++ "}"

def showTransit (st : Transit) : String :=
  "direct=[" ++ ",".intercalate (st.theirDirect.map showTcp) ++ "] relays=" ++
    showSet (st.ourRelays.map fun r => "(" ++ ";".intercalate (r.map showTcp) ++ ")")

def maxDelay (ds : List Dial) : Nat := ds.foldl (fun m d => max m d.delay) 0

def showDials (ds : List Dial) : String :=
  let direct := (ds.filter (fun d => !d.relay)).map fun d => showTarget d.host d.port
  let rel := ds.filter (·.relay)
  let groups := (List.range (maxDelay ds + 1)).filterMap fun k =>
    let g := rel.filter (fun d => d.delay == k)
    if g.isEmpty then none else some (s!"{k}:" ++ showSet (g.map fun d => showTarget d.host d.port))
  "direct=[" ++ ",".intercalate direct ++ "] relays=[" ++ ";".intercalate groups ++ "]"

def showSched (s : Sched) : String :=
  s!"{s.delay}:{if s.relay then "R" else "D"}:{showKind s.kind}:{showTarget s.host s.port}:{if s.ep then "ep" else "noep"}"

def showScheds (l : List Sched) : String := "sched=[" ++ ",".intercalate (l.map showSched) ++ "]"

/-- what is dialled when the timers fire: delay order, then scheduling order -/
def dialled (l : List Sched) : List Sched :=
  (l.filter (fun s => s.ep && s.delay == 0)) ++ (l.filter (fun s => s.ep && s.delay != 0))

/-! ## generations: hints in every reachable Manager state

`Manager` makes one `Connector` per generation (`_start_connecting`), abandons it when the Leader asks for a
new generation while it is still connecting (`stop_connecting`), and keeps reporting the hints in use through
`_hint_status` → `_maybe_send_status` (`DilationStatus.hints`, a `set` of `DilationHint(url, is_direct)`).
Everything the Manager does is read from the *generated* tables; only the outputs that touch hint state have a
semantics here, the others (`send_*`, `notify_stopped`, `abandon_connection`, the status outputs that set
`peer_connection`/`generation`) leave it alone — pinned by `Gen.HintGuards.statusHintSites`: the only expression that
ever becomes `DilationStatus.hints` after the default `Factory(set)` is the one in `_hint_status`. -/

inductive Role where
  | leader
  | follower
  deriving DecidableEq, Repr

/-- `f"{x}"` for the values that reach it: a `str` is itself, a non-bool `int` its decimal digits.  Python formats every
    other value without raising as well; no scheduled hint holds one (`parseTcp_spec`), the model prints its token. -/
def pyFormat : J → String
  | .str s => s
  | .int n => toString n
  | j => showJ j

/-- `DilationHint(f"{h.hostname}:{h.port}", is_direct)` -/
abbrev StatusHint := String × Bool

def statusOf (s : Sched) : StatusHint := (pyFormat s.host ++ ":" ++ pyFormat s.port, !s.relay)

/-- `set(hints).union(latest)` (attrs-frozen `DilationHint`s compare by value) -/
def setUnion (hints latest : List StatusHint) : List StatusHint :=
  (hints ++ latest).foldl (fun acc x => if acc.contains x then acc else acc ++ [x]) []

structure GDil where
  mgr : Manager.State
  role : Option Role              -- `_my_role`
  con : Option Connector.State    -- the machine of `self._connector`; `none`: no Connector has been made yet
  gen : Nat                       -- Connectors made so far; `self._connector` is number `gen - 1`
  tor : Bool
  noListen : Bool
  own : Bool                      -- a transit relay is configured (`_transit_relays` of every Connector)
  sched : List (Nat × Sched)      -- every `_schedule_connection` call: (number of the Connector, the call)
  pending : List (Nat × Sched)    -- their `deferLater` timers that have neither fired nor been cancelled
  dials : List (Nat × Sched)      -- `Connector._connect(ep, …)` calls of fired timers that had an endpoint
  noep : Nat                      -- fired timers whose `ep` was `None` (`None.connect`: AttributeError into `log.err`)
  status : List StatusHint        -- `_latest_status.hints`
  cbClears : Bool                 -- environment: the application's status callback empties the `hints` set it is handed
                                  -- (`_maybe_send_status` hands out the very object it keeps in `_latest_status`)

/-- `Manager._hint_status(hints)`: `evolve(self._latest_status, hints=set(hints).union(self._latest_status.hints))`;
    `_maybe_send_status` stores it and hands it to the application's callback, if any -/
def GDil.hintStatus (d : GDil) (hints : List StatusHint) : GDil :=
  { d with status := if d.cbClears then [] else setUnion hints d.status }

/-- `Connector._use_hints(hints)` on Connector number `k`: the `_schedule_connection` calls (each starts a timer),
    then `self._manager._hint_status(hint_status)` as the last statement -/
def GDil.useHints (d : GDil) (k : Nat) (hints : List HintObj) : Except Err GDil := do
  let ss ← connectorUseHints d.tor d.noListen hints
  pure (GDil.hintStatus { d with sched := d.sched ++ ss.map (fun s => (k, s)), pending := d.pending ++ ss.map (fun s => (k, s)) }
    (ss.map statusOf))

/-- `stop_pending_connectors()` of Connector `k`: `d.cancel()` on each of its Deferreds; a timer that has not fired never will -/
def GDil.cancelPending (d : GDil) (k : Nat) : GDil :=
  { d with pending := d.pending.filter (fun p => p.1 != k) }

/-- `self._connector.got_hints(hint_objs)` through the generated Connector table -/
def GDil.gotHints (d : GDil) (hints : List HintObj) : Except Err GDil :=
  match d.con with
  | none => .error .attributeError                    -- `self._connector`: no such attribute yet
  | some c =>
    match Connector.table c .got_hints with
    | none => .error .noTransition
    | some (c', outs) =>
      if outs.contains .use_hints then GDil.useHints { d with con := some c' } (d.gen - 1) hints
      else .ok { d with con := some c' }

/-- `self._connector.stop()` through the generated Connector table -/
def GDil.connectorStop (d : GDil) : Except Err GDil :=
  match d.con with
  | none => .error .attributeError
  | some c =>
    match Connector.table c .k_stop with
    | none => .error .noTransition
    | some (c', outs) =>
      if outs.contains .stop_everything then .ok (GDil.cancelPending { d with con := some c' } (d.gen - 1))
      else .ok { d with con := some c' }

/-- `_start_connecting()`: a fresh `Connector` and its `start()` — with a relay configured that is already a use of
    hints (`self._use_hints(self._transit_relays)`), and so a `_hint_status` call -/
def GDil.startConnecting (d : GDil) : Except Err GDil :=
  let d' := { d with con := some Connector.init, gen := d.gen + 1 }
  if d.own then d'.useHints d.gen [.relay ownRelay] else .ok d'

/-- one Manager output.  `msg`: the argument of `rx_HINTS`; `role`: what `choose_role` derives from the PLEASE -/
def GDil.output (d : GDil) (msg : J) (role : Option Role) : Manager.Output → Except Err GDil
  | .choose_role =>
    match role with
    | some r => .ok { d with role := some r }
    | none => .error .keyError                         -- `message["side"]`
  | .start_connecting => d.startConnecting
  | .start_connecting_ignore_message => d.startConnecting
  | .stop_connecting => d.connectorStop
  | .use_hints => do
    let hs ← managerUseHints msg
    d.gotHints hs
  | _ => .ok d

/-- Automat runs the outputs of a row in order; the first one that raises ends the call -/
def GDil.outputs (d : GDil) (msg : J) (role : Option Role) : List Manager.Output → Except Err GDil
  | [] => .ok d
  | o :: os => do
    let d' ← d.output msg role o
    d'.outputs msg role os

/-- one Manager input: no row = `NoTransition` (state untouched), else the new state is set first -/
def GDil.input (d : GDil) (i : Manager.Input) (msg : J) (role : Option Role) : Except Err GDil :=
  match Manager.table d.mgr i with
  | none => .error .noTransition
  | some (m', outs) => GDil.outputs { d with mgr := m' } msg role outs

/-- the timers in `ps` fire: `Connector._connect(ep, …)` -/
def GDil.fire (d : GDil) (ps : List (Nat × Sched)) : GDil :=
  { d with dials := d.dials ++ ps.filter (fun (p : Nat × Sched) => p.2.ep),
           noep := d.noep + (ps.filter (fun (p : Nat × Sched) => !p.2.ep)).length }

/-- a timer started with delay 0 since the last `tick` is due at once -/
def dueNow (p : Nat × Sched) : Bool := p.2.delay == 0

/-- `reactor.advance(0)`: the timers with delay 0 fire (those with `RELAY_DELAY` are not due yet) -/
def GDil.fireDue (d : GDil) : GDil :=
  GDil.fire { d with pending := d.pending.filter (fun p => !dueNow p) } (d.pending.filter dueNow)

/-- time passes (more than `RELAY_DELAY`): every pending timer fires, in the order of its due time -/
def GDil.tick (d : GDil) : GDil :=
  GDil.fire { d with pending := [] } (d.pending.filter dueNow ++ d.pending.filter (fun p => !dueNow p))

/-- an attempt of the current Connector completes its handshake: `add_candidate(c)` → `consider` queues
    `accept(c)` on the eventual queue; the reactor turn first fires the timers that are due, then `accept` runs
    `select_and_stop_remaining` (`stop_pending_connectors()`, `manager.connector_connection_made(c)`) -/
def GDil.made (d : GDil) : Except Err GDil :=
  match d.con with
  | none => .error .attributeError
  | some c =>
    match Connector.table c .add_candidate with
    | none => .error .noTransition
    | some (c1, outs1) =>
      let d1 := GDil.fireDue { d with con := some c1 }
      if !outs1.contains .consider then .ok d1 else
      match Connector.table c1 .accept with
      | none => .error .noTransition
      | some (c2, outs2) =>
        let d2 := { d1 with con := some c2 }
        if !outs2.contains .select_and_stop_remaining then .ok d2 else
        (d2.cancelPending (d2.gen - 1)).input .connection_made .null none

/-- `connector_connection_lost()`: `connection_lost_leader()` if `self._my_role is LEADER`, else `connection_lost_follower()` -/
def GDil.lost (d : GDil) : Except Err GDil :=
  d.input (if d.role = some .leader then .connection_lost_leader else .connection_lost_follower) .null none

/-- what happens to a Manager that has sent its PLEASE -/
inductive GOp where
  | please (r : Role)          -- the peer's PLEASE (its `side` makes us Leader or Follower)
  | hints (msg : J)            -- a `connection-hints` message
  | reconnect                  -- `reconnect` (sent by a Leader)
  | reconnecting               -- `reconnecting` (sent by a Follower)
  | made                       -- an attempt of the current Connector wins
  | lost                       -- the selected connection is lost
  | stop                       -- `Manager.stop()`
  | tick                       -- time passes

def GDil.step (d : GDil) : GOp → Except Err GDil
  | .please r => d.input .rx_PLEASE .null (some r)
  | .hints msg => d.input .rx_HINTS msg none
  | .reconnect => d.input .rx_RECONNECT .null none
  | .reconnecting => d.input .rx_RECONNECTING .null none
  | .made => d.made
  | .lost => d.lost
  | .stop => d.input .k_stop .null none
  | .tick => .ok d.tick

/-- a Manager just made -/
def GDil.blank (tor noListen own cbClears : Bool) : GDil :=
  { mgr := Manager.init, role := none, con := none, gen := 0, tor := tor, noListen := noListen, own := own,
    sched := [], pending := [], dials := [], noep := 0, status := [], cbClears := cbClears }

/-- `Manager(...)`, `got_dilation_key`, `got_wormhole_versions` → `start()`: the row `WAITING --start-->` of the table -/
def GDil.init (tor noListen own cbClears : Bool) : Except Err GDil :=
  (GDil.blank tor noListen own cbClears).input .start .null none

def showGSched (p : Nat × Sched) : String := s!"{p.1}:" ++ showSched p.2

def showStatus (l : List StatusHint) : String :=
  showSet (l.map fun h => hexOfStr h.1 ++ (if h.2 then ":D" else ":R"))

/-- result line of a generation op: states, number of Connectors, what the op newly scheduled / dialled, and the status -/
def showGDil (old d : GDil) : String :=
  s!"{Manager.State.name d.mgr} " ++ (match d.con with | some c => Connector.State.name c | none => "-") ++ s!" g{d.gen} sched=[" ++
    ",".intercalate ((d.sched.drop old.sched.length).map showGSched) ++ "] dial=[" ++
    ",".intercalate ((d.dials.drop old.dials.length).map fun p => s!"{p.1}:" ++ showTarget p.2.host p.2.port) ++
    s!"] noep={d.noep - old.noep} st=" ++ showStatus d.status

structure DrvSt where
  t : Transit
  d : Dil
  g : GDil

def gdilBlank : GDil := GDil.blank false false false false

def drvInit : DrvSt :=
  { t := Transit.init false false false,
    d := { mgr := Manager.init, con := Connector.init, tor := false, noListen := false, sched := [] },
    g := gdilBlank }

def gop (s : DrvSt) (op : GOp) : DrvSt × String :=
  match s.g.step op with
  | .ok g' => ({ s with g := g' }, showGDil s.g g')
  | .error e => (s, e.name)

def flag (s : String) : Bool := s == "1"

def withJ (ts : List String) (f : J → String) : String :=
  match readJ ts [] with
  | some j => f j
  | none => "bad-op"

def showExcept {α : Type} (f : α → String) : Except Err α → String
  | .ok a => f a
  | .error e => e.name

def step (s : DrvSt) (line : String) : DrvSt × String :=
  match tokens line with
  | ["reset"] => (drvInit, "ok")
  | "parse" :: ts => (s, withJ ts fun j => showExcept (fun r => match r with | some h => showHintObj h | none => "None") (parseHint j))
  | "ptcp" :: ts => (s, withJ ts fun j => showExcept (fun r => match r with | some t => showTcp t | none => "None") (parseTcpV1Hint j))
  | "enc" :: ts => (s, withJ ts fun j => showExcept (fun r => match r with | some h => showJ (encodeHint h) | none => "None") (parseHint j))
  | "rt" :: ts => (s, withJ ts fun j =>
      match parseHint j with
      | .ok (some h) => showExcept (fun r => match r with | some h => showHintObj h | none => "None") (parseHint (encodeHint h))
      | .ok none => "None"
      | .error e => e.name)
  | ["tnew", tor, listener, own] => ({ s with t := Transit.init (flag tor) (flag listener) (flag own) }, "ok")
  | "tadd" :: ts =>
    match readJ ts [] with
    | none => (s, "bad-op")
    | some j =>
      match addConnectionHints s.t j with
      | (t', none) => ({ s with t := t' }, showTransit t')
      | (t', some e) => ({ s with t := t' }, e.name ++ " " ++ showTransit t')
  | "taddU" :: ts =>
    match readJ ts [] with
    | none => (s, "bad-op")
    | some j =>
      match addConnectionHints s.t j with
      | (t', none) => ({ s with t := t' }, "ok")
      | (t', some e) => ({ s with t := t' }, e.name)
  | "trace" :: listener :: fs =>
    match fs.mapM (fun t => if t == "p" then some Fate.pending else if t == "t" then some Fate.tcpFail
        else if t == "h" then some Fate.handshakeFail else if t == "c" then some Fate.connected else none) with
    | some fates =>
      (s, match raceOutcome (flag listener) fates with
          | .pending => "pending" | .failed => "failed" | .connection i => s!"connection {i}")
    | none => (s, "bad-op")
  | ["tconnect"] => (s, showExcept showDials (connect s.t))
  | ["tconnectU"] => (s, showExcept (fun ds => "targets=" ++ showSet (ds.map fun d => showTarget d.host d.port)) (connect s.t))
  | ["dnew", tor, nolisten, own, mgr, con] =>
    match Manager.State.ofName? mgr, Connector.State.ofName? con with
    | some m, some c =>
      match Dil.init (flag tor) (flag nolisten) (flag own) m with
      | .ok d => ({ s with d := { d with con := c } }, showScheds d.sched)
      | .error e => (s, e.name)
    | _, _ => (s, "bad-op")
  | "dmsg" :: ts =>
    match readJ ts [] with
    | none => (s, "bad-op")
    | some j =>
      match rxHints s.d j with
      | .ok d' =>
        ({ s with d := d' }, s!"{Manager.State.name d'.mgr} {Connector.State.name d'.con} " ++ showScheds (d'.sched.drop s.d.sched.length))
      | .error e => (s, e.name)
  | "dmsgU" :: ts =>
    match readJ ts [] with
    | none => (s, "bad-op")
    | some j =>
      match rxHints s.d j with
      | .ok d' =>
        ({ s with d := d' }, s!"{Manager.State.name d'.mgr} {Connector.State.name d'.con} sched=" ++
          showSet ((d'.sched.drop s.d.sched.length).map showSched))
      | .error e => (s, e.name)
  | ["ddial"] => (s, "dial=[" ++ ",".intercalate ((dialled s.d.sched).map fun x => s!"{x.delay}:{showTarget x.host x.port}") ++ "]")
  | ["ddialU"] => (s, "targets=" ++ showSet ((dialled s.d.sched).map fun x => showTarget x.host x.port))
  | ["gnew", tor, nolisten, own, cb] =>
    match GDil.init (flag tor) (flag nolisten) (flag own) (flag cb) with
    | .ok g => ({ s with g := g }, showGDil gdilBlank g)
    | .error e => (s, e.name)
  | ["gplease", r] =>
    if r == "L" then gop s (.please .leader) else if r == "F" then gop s (.please .follower) else (s, "bad-op")
  | "ghints" :: ts =>
    match readJ ts [] with
    | none => (s, "bad-op")
    | some j => gop s (.hints j)
  | ["greconnect"] => gop s .reconnect
  | ["greconnecting"] => gop s .reconnecting
  | ["gmade"] => gop s .made
  | ["glost"] => gop s .lost
  | ["gstop"] => gop s .stop
  | ["gtick"] => gop s .tick
  | _ => (s, "bad-op")

def driver (lines : List String) : List String := runLines step drvInit lines

end WV.C20
