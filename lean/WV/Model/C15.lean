import WV.Model.Basic
import WV.Gen.Skel
import WV.Gen.Flags
import WV.Gen.T_SubChannel

/-!
C15 — Dilation back-pressure.

Model of `src/wormhole/_dilation/outbound.py` (`Outbound` producer bookkeeping, `PullToPush`) and
of the pause bookkeeping of `src/wormhole/_dilation/inbound.py` (`Inbound._paused_subchannels`).

A producer's turn (`p.resumeProducing()` called from the loop in `Outbound.resumeProducing`, or a
pull producer's `resumeProducing()` called by the Cooperator) is an *oracle*: it performs an
arbitrary finite script of operations on the same `Outbound`, each of which may start a nested
`resumeProducing` loop whose turns take further scripts.  The semantics is small-step with an
explicit Python call stack (`Frame`), so that every re-entrant point is a configuration:

* `Frame.loop`    — inside `Outbound.resumeProducing`, about to test `while not self._paused`
* `Frame.ops r`   — inside a turn (or the top-level caller), `r` = operations still to perform
* `Frame.pull sc r` — inside `PullToPush._pull`, in the turn of the pull producer registered on `sc`

Python sets are lists used through membership only; the deque is a list, left = index 0.
-/
namespace WV.C15
open WV

/-! ## observable calls -/

inductive Exn where
  | dupRegister    -- ValueError: registering producer before previous one was unregistered
  | noProducer     -- KeyError: `_subchannel_producers.pop(sc)`
  | assertion      -- AssertionError: `_check_invariants` / `assert p in self._paused_producers` / `assert not self._queued_unsent`
  | index          -- IndexError: `self._all_producers[0]` on an empty deque
  | dequeRemove    -- ValueError: `_all_producers.remove(p)`, p absent
  | noConnection   -- AttributeError: `self._connection.transport` with `_connection is None`
  | alreadyClosed  -- AlreadyClosedError: a producer wrote to its locally closed subchannel and let the exception escape
  deriving DecidableEq, Repr

def Exn.name : Exn → String
  | .dupRegister => "ValueError" | .noProducer => "KeyError" | .assertion => "AssertionError"
  | .index => "IndexError" | .dequeRemove => "ValueError" | .noConnection => "AttributeError"
  | .alreadyClosed => "AlreadyClosedError"

/-- what the producers, the connection and its transport are told, newest first in `Cfg.log`.
    `reg`/`unreg` are ghost markers (a producer object enters / leaves the bookkeeping). -/
inductive Ev where
  | pause (p : Nat)      -- `p.pauseProducing()`
  | resume (p : Nat)     -- `p.resumeProducing()` from the rotation in `Outbound.resumeProducing`
  | stop (p : Nat)       -- `PullToPush.stopStreaming()` → `_coopTask.stop()`
  | pulled (p : Nat)     -- the Cooperator ran adapter `p`: the pull producer's `resumeProducing()`
  | reg (p : Nat)
  | unreg (p : Nat)
  | send (pauser : Bool) -- `self._connection.send_record(r)`
  | tReg                 -- `c.transport.registerProducer(self, True)`
  | tUnreg               -- `self._connection.transport.unregisterProducer()`
  | exc (e : Exn)        -- an exception reached the caller of the operation
  deriving DecidableEq, Repr

/-! ## operations -/

inductive Op where
  | write (pauser : Bool)              -- `queue_and_send_record(r)`; `pauser`: the transport reacts to this record by calling `pauseProducing`
  | pause                              -- the transport calls `pauseProducing()`
  | resume                             -- the transport calls `resumeProducing()`
  | stopProducing                      -- the transport calls `stopProducing()`
  | reg (sc p : Nat) (streaming : Bool) -- `subchannel_registerProducer(sc, p, streaming)`
  | unreg (sc : Nat)                   -- `subchannel_unregisterProducer(sc)`
  | close (sc : Nat)                   -- `subchannel_closed(scid, sc)`
  | use                                -- `use_connection(c)`
  | stop                               -- `stop_using_connection()`
  | pull (p : Nat)                     -- one Cooperator work unit of the `PullToPush` adapter `p`
  | failWrite                          -- the producer writes to its locally closed subchannel: `AlreadyClosedError`
                                       -- leaves its `resumeProducing()` (the rest of the turn is not performed)
  deriving DecidableEq, Repr

inductive Frame where
  | loop
  | ops (r : List Op)
  | pull (sc : Nat) (r : List Op)
  deriving DecidableEq, Repr

/-! ## state -/

structure Out where
  paused : Bool := true                 -- `_paused`
  allp : List Nat := []                 -- `_all_producers` (deque, left is next)
  pausedSet : List Nat := []            -- `_paused_producers`
  unpausedSet : List Nat := []          -- `_unpaused_producers`
  scp : List (Nat × Nat) := []          -- `_subchannel_producers` : sc ↦ producer
  pulls : List Nat := []                -- live `PullToPush` adapters (`isinstance(p, PullToPush)`)
  conn : Bool := false                  -- `_connection is not None`
  unsent : List Bool := []              -- `_queued_unsent` (each record: is it a pauser)
  queue : List Bool := []               -- `_outbound_queue`
  deriving DecidableEq, Repr

structure Cfg where
  o : Out := {}
  stack : List Frame := []
  scripts : List (List Op) := []        -- the oracle: the i-th turn from now performs the i-th script
  log : List Ev := []                   -- newest first
  deriving DecidableEq, Repr

/-- `set.add` -/
def sAdd (x : Nat) (l : List Nat) : List Nat := if x ∈ l then l else x :: l
/-- `set.discard` / `set.remove` of a present element -/
def sDel (x : Nat) (l : List Nat) : List Nat := l.filter (fun y => y != x)

/-- `_check_invariants` -/
def checkInv (o : Out) : Bool :=
  o.unpausedSet.all (fun x => !o.pausedSet.contains x) &&
  ((o.pausedSet ++ o.unpausedSet).all (fun x => o.allp.contains x) &&
   o.allp.all (fun x => o.pausedSet.contains x || o.unpausedSet.contains x))

def Cfg.emit (c : Cfg) (e : Ev) : Cfg := { c with log := e :: c.log }

/-- an exception raised by the body of an operation: it reaches the caller of that operation
    (the producer's script, or the top-level caller), which notes it and goes on -/
def Cfg.raiseOp (c : Cfg) (e : Exn) : Cfg := c.emit (.exc e)

/-- drop the `resumeProducing` activations an exception unwinds through -/
def unwind : List Frame → List Frame
  | .loop :: k => unwind k
  | k => k

/-- an exception raised inside the `resumeProducing` loop: unwinds to the nearest caller -/
def Cfg.raiseLoop (c : Cfg) (e : Exn) : Cfg := { c with stack := unwind c.stack, log := .exc e :: c.log }

/-! ## `pauseProducing` -/

/-- the `for p in self._all_producers:` loop (over the deque as it was; the producers'
    `pauseProducing` is assumed not to call back into `Outbound`) -/
def pauseLoop : List Nat → Cfg → Cfg
  | [], c => c
  | p :: ps, c =>
    if p ∈ c.o.unpausedSet then
      pauseLoop ps { c with o := { c.o with unpausedSet := sDel p c.o.unpausedSet, pausedSet := sAdd p c.o.pausedSet },
                            log := .pause p :: c.log }
    else pauseLoop ps c

def pauseProducing (c : Cfg) : Cfg :=
  if c.o.paused then c
  else pauseLoop c.o.allp { c with o := { c.o with paused := true } }

/-- `self._connection.send_record(r)`; a pauser record makes the transport call `pauseProducing` -/
def sendRecord (c : Cfg) (b : Bool) : Cfg :=
  if b then pauseProducing (c.emit (.send b)) else c.emit (.send b)

/-! ## `resumeProducing` -/

/-- entry of `resumeProducing`: guard, clear the flag, enter the loop -/
def resumeProducing (c : Cfg) : Cfg :=
  if !c.o.paused then c
  else { c with o := { c.o with paused := false }, stack := .loop :: c.stack }

/-- `p.resumeProducing()`: a push producer takes its turn (the next script of the oracle);
    `PullToPush.resumeProducing` is `_coopTask.resume()`, nothing happens synchronously -/
def giveTurn (c : Cfg) (p : Nat) : Cfg :=
  if p ∈ c.o.pulls then c
  else match c.scripts with
    | [] => { c with stack := .ops [] :: c.stack }
    | s :: ss => { c with scripts := ss, stack := .ops s :: c.stack }

/-- `p = self._all_producers[0]; rotate(-1); assert p in self._paused_producers`, then the two
    set updates and `p.resumeProducing()` -/
def nextTurn (c : Cfg) (p : Nat) (rest : List Nat) : Cfg :=
  if p ∉ c.o.pausedSet then Cfg.raiseLoop { c with o := { c.o with allp := rest ++ [p] } } .assertion
  else giveTurn { c with o := { c.o with allp := rest ++ [p], pausedSet := sDel p c.o.pausedSet,
                                          unpausedSet := sAdd p c.o.unpausedSet },
                         log := .resume p :: c.log } p

/-- one evaluation of `while not self._paused:` and its body, top frame = `.loop`, `k` = frames below -/
def loopStep (c : Cfg) (k : List Frame) : Cfg :=
  if c.o.paused then { c with stack := k }
  else match c.o.unsent with
  | b :: rest => sendRecord { c with o := { c.o with unsent := rest } } b
  | [] =>
    -- `_get_next_unpaused_producer`
    if !checkInv c.o then c.raiseLoop .assertion
    else if c.o.pausedSet.isEmpty then { c with stack := k }       -- `return None` → `break`
    else match c.o.allp with
    | [] => c.raiseLoop .index
    | p :: rest => nextTurn c p rest

/-! ## the other operations -/

def scpHas (sc : Nat) (l : List (Nat × Nat)) : Bool := l.any (fun e => e.1 == sc)

def opWrite (c : Cfg) (b : Bool) : Cfg :=
  if c.o.conn then
    if !c.o.unsent.isEmpty then { c with o := { c.o with queue := c.o.queue ++ [b], unsent := c.o.unsent ++ [b] } }
    else sendRecord { c with o := { c.o with queue := c.o.queue ++ [b] } } b
  else { c with o := { c.o with queue := c.o.queue ++ [b] } }

/-- the bookkeeping part of `subchannel_registerProducer` -/
def regState (o : Out) (sc p : Nat) (streaming : Bool) : Out :=
  if o.paused then
    { o with scp := o.scp ++ [(sc, p)], allp := o.allp ++ [p],
             pulls := if streaming then o.pulls else sAdd p o.pulls, pausedSet := sAdd p o.pausedSet }
  else
    { o with scp := o.scp ++ [(sc, p)], allp := o.allp ++ [p],
             pulls := if streaming then o.pulls else sAdd p o.pulls, unpausedSet := sAdd p o.unpausedSet }

def opReg (c : Cfg) (sc p : Nat) (streaming : Bool) : Cfg :=
  if scpHas sc c.o.scp then c.raiseOp .dupRegister
  else if !checkInv (regState c.o sc p streaming) then
    Cfg.raiseOp { c with o := regState c.o sc p streaming, log := .reg p :: c.log } .assertion
  -- push: `producer.pauseProducing()` if paused; pull: `startStreaming(self._paused)` → pause if paused
  else if c.o.paused then { c with o := regState c.o sc p streaming, log := .pause p :: .reg p :: c.log }
  else { c with o := regState c.o sc p streaming, log := .reg p :: c.log }

/-- `p = self._subchannel_producers.pop(sc)`; `if isinstance(p, PullToPush): p.stopStreaming()` -/
def unregPop (c : Cfg) (sc p : Nat) : Cfg :=
  if p ∈ c.o.pulls then
    { c with o := { c.o with scp := c.o.scp.filter (fun e => e.1 != sc), pulls := sDel p c.o.pulls }, log := .stop p :: c.log }
  else { c with o := { c.o with scp := c.o.scp.filter (fun e => e.1 != sc) } }

/-- `_all_producers.remove(p)`, the two `discard`s -/
def unregDrop (c : Cfg) (p : Nat) : Cfg :=
  { c with o := { c.o with allp := c.o.allp.erase p, pausedSet := sDel p c.o.pausedSet,
                            unpausedSet := sDel p c.o.unpausedSet },
           log := .unreg p :: c.log }

def opUnreg (c : Cfg) (sc : Nat) : Cfg :=
  match c.o.scp.lookup sc with
  | none => c.raiseOp .noProducer
  | some p =>
    if p ∉ c.o.allp then (unregPop c sc p).raiseOp .dequeRemove
    else if !checkInv (unregDrop (unregPop c sc p) p).o then (unregDrop (unregPop c sc p) p).raiseOp .assertion
    else unregDrop (unregPop c sc p) p

def opClose (c : Cfg) (sc : Nat) : Cfg :=
  if !checkInv c.o then c.raiseOp .assertion
  else if scpHas sc c.o.scp then opUnreg c sc else c

def opUse (c : Cfg) : Cfg :=
  if !c.o.unsent.isEmpty then Cfg.raiseOp { c with o := { c.o with conn := true } } .assertion
  else resumeProducing { c with o := { c.o with conn := true, unsent := c.o.queue }, log := .tReg :: c.log }

def opStop (c : Cfg) : Cfg :=
  if !c.o.conn then c.raiseOp .noConnection
  else pauseProducing { c with o := { c.o with conn := false, unsent := [] }, log := .tUnreg :: c.log }

/-- the subchannel whose registration created adapter `p` (the `sc` captured by its `unregister` closure) -/
def scOf (p : Nat) (l : List (Nat × Nat)) : Option Nat := (l.find? (fun e => e.2 == p)).map Prod.fst

/-- the Cooperator steps adapter `p` only while its task is not paused and not stopped:
    `PullToPush._pull` calls the pull producer's `resumeProducing()` inside `try:` -/
def opPull (c : Cfg) (p : Nat) : Cfg :=
  if p ∈ c.o.pulls ∧ p ∈ c.o.unpausedSet then
    match scOf p c.o.scp with
    | none => c
    | some sc =>
      match c.scripts with
      | [] => { c with stack := .pull sc [] :: c.stack, log := .pulled p :: c.log }
      | s :: ss => { c with scripts := ss, stack := .pull sc s :: c.stack, log := .pulled p :: c.log }
  else c

/-- `except Exception:` around `self._unregister()` in `_pull`: whatever the unregistration raises is swallowed -/
def quiet (c : Cfg) : Cfg :=
  match c.log with
  | .exc _ :: l => { c with log := l }
  | _ => c

/-- `PullToPush._pull`: ANY exception out of the pull producer's `resumeProducing()` is logged and answered by
    `self._unregister()` = `subchannel_unregisterProducer(sc)` (→ `stopStreaming()`, removal from the rotation);
    `k` = the stack below the turn -/
def pullFailed (c : Cfg) (sc : Nat) (k : List Frame) : Cfg :=
  quiet (opUnreg { c with stack := k } sc)

def exec (c : Cfg) : Op → Cfg
  | .write b => opWrite c b
  | .pause => pauseProducing c
  | .resume => resumeProducing c
  | .stopProducing => pauseProducing c
  | .reg sc p s => opReg c sc p s
  | .unreg sc => opUnreg c sc
  | .close sc => opClose c sc
  | .use => opUse c
  | .stop => opStop c
  | .pull p => opPull c p
  | .failWrite => c.raiseOp .alreadyClosed   -- (only reached outside a turn frame; `step` handles turns)

/-- one micro-step of the Python call stack -/
def step (c : Cfg) : Cfg :=
  match c.stack with
  | [] => c
  | .loop :: k => loopStep c k
  | .ops [] :: k => { c with stack := k }
  -- the exception leaves a push producer's `resumeProducing()` (or the top-level caller's own code): it unwinds
  -- through the `Outbound.resumeProducing` loops below to whoever called them
  | .ops (.failWrite :: _) :: k => { c with stack := unwind k, log := .exc .alreadyClosed :: c.log }
  | .ops (op :: r) :: k => exec { c with stack := .ops r :: k } op
  | .pull _ [] :: k => { c with stack := k }
  | .pull sc (.failWrite :: _) :: k => pullFailed c sc k
  | .pull sc (op :: r) :: k => exec { c with stack := .pull sc r :: k } op

/-! ## termination: a lexicographic measure that every micro-step decreases -/

def scriptsSize : List (List Op) → Nat
  | [] => 0
  | s :: ss => s.length + 1 + scriptsSize ss

def framesSize : List Frame → Nat
  | [] => 0
  | .loop :: k => framesSize k
  | .ops r :: k => r.length + framesSize k
  | .pull _ r :: k => r.length + framesSize k

/-- operations still to be performed (in pending scripts and in active turns) -/
def mA (c : Cfg) : Nat := scriptsSize c.scripts + framesSize c.stack
/-- queued records still to be sent -/
def mB (c : Cfg) : Nat := c.o.unsent.length
/-- stack depth and producers still waiting for their turn -/
def mC (c : Cfg) : Nat := c.stack.length + 3 * c.o.pausedSet.length

theorem sDel_length_lt {x : Nat} {l : List Nat} (h : x ∈ l) : (sDel x l).length < l.length := by
  induction l with
  | nil => cases h
  | cons y ys ih =>
    by_cases hy : y = x
    · subst hy
      have : (sDel y (y :: ys)).length = (sDel y ys).length := by simp [sDel]
      rw [this]
      have := List.length_filter_le (fun z => z != y) ys
      simp only [sDel, List.length_cons]; omega
    · have hx : x ∈ ys := by
        cases h with
        | head => exact absurd rfl hy
        | tail _ h => exact h
      have := ih hx
      simp [sDel, hy] at this ⊢
      omega

theorem framesSize_unwind_le (k : List Frame) : framesSize (unwind k) ≤ framesSize k ∧ (unwind k).length ≤ k.length := by
  induction k with
  | nil => simp [unwind]
  | cons f k ih =>
    cases f with
    | loop => simp only [unwind, framesSize, List.length_cons]; omega
    | ops r => simp [unwind]
    | pull sc r => simp [unwind]

theorem pauseLoop_meas (ps : List Nat) (c : Cfg) :
    (pauseLoop ps c).stack = c.stack ∧ (pauseLoop ps c).scripts = c.scripts ∧
    (pauseLoop ps c).o.unsent = c.o.unsent := by
  induction ps generalizing c with
  | nil => simp [pauseLoop]
  | cons p ps ih =>
    simp only [pauseLoop]
    split
    · have := ih { c with o := { c.o with unpausedSet := sDel p c.o.unpausedSet, pausedSet := sAdd p c.o.pausedSet },
                          log := .pause p :: c.log }
      simpa using this
    · exact ih c

theorem pauseProducing_meas (c : Cfg) :
    (pauseProducing c).stack = c.stack ∧ (pauseProducing c).scripts = c.scripts ∧
    (pauseProducing c).o.unsent = c.o.unsent := by
  unfold pauseProducing
  split
  · simp
  · have := pauseLoop_meas c.o.allp { c with o := { c.o with paused := true } }
    simpa using this

theorem sendRecord_meas (c : Cfg) (b : Bool) :
    (sendRecord c b).stack = c.stack ∧ (sendRecord c b).scripts = c.scripts ∧
    (sendRecord c b).o.unsent = c.o.unsent := by
  unfold sendRecord
  split
  · have := pauseProducing_meas (c.emit (.send b)); simpa [Cfg.emit] using this
  · simp [Cfg.emit]

/-- the order every micro-step descends in -/
def Lt3 (a b : Nat × Nat × Nat) : Prop :=
  a.1 < b.1 ∨ (a.1 = b.1 ∧ (a.2.1 < b.2.1 ∨ (a.2.1 = b.2.1 ∧ a.2.2 < b.2.2)))

def meas (c : Cfg) : Nat × Nat × Nat := (mA c, mB c, mC c)

theorem lt3_wf : WellFounded Lt3 := by
  have h : WellFounded (Prod.Lex (· < · : Nat → Nat → Prop) (Prod.Lex (· < · : Nat → Nat → Prop) (· < · : Nat → Nat → Prop))) :=
    (Prod.lex ⟨_, Nat.lt_wfRel.wf⟩ (Prod.lex ⟨_, Nat.lt_wfRel.wf⟩ ⟨_, Nat.lt_wfRel.wf⟩)).wf
  refine Subrelation.wf ?_ h
  intro a b hab
  obtain ⟨a1, a2, a3⟩ := a
  obtain ⟨b1, b2, b3⟩ := b
  rcases hab with h1 | ⟨h1, h2 | ⟨h2, h3⟩⟩
  · exact Prod.Lex.left _ _ h1
  · simp only at h1 h2; subst h1; exact Prod.Lex.right _ (Prod.Lex.left _ _ h2)
  · simp only at h1 h2 h3; subst h1; subst h2; exact Prod.Lex.right _ (Prod.Lex.right _ h3)

theorem resumeProducing_mA (c : Cfg) : mA (resumeProducing c) = mA c := by
  unfold resumeProducing; split <;> simp [mA, framesSize]

theorem opUnreg_meas (c : Cfg) (sc : Nat) : (opUnreg c sc).stack = c.stack ∧ (opUnreg c sc).scripts = c.scripts := by
  have hp : ∀ p, (unregPop c sc p).stack = c.stack ∧ (unregPop c sc p).scripts = c.scripts := by
    intro p; unfold unregPop; split <;> simp
  unfold opUnreg
  split
  · simp [Cfg.raiseOp, Cfg.emit]
  · rename_i p _
    split
    · simpa [Cfg.raiseOp, Cfg.emit] using hp p
    · split <;> simpa [Cfg.raiseOp, Cfg.emit, unregDrop] using hp p

theorem exec_mA (c : Cfg) (op : Op) : mA (exec c op) ≤ mA c := by
  cases op with
  | write b =>
    simp only [exec, opWrite]
    split
    · split
      · simp [mA]
      · have := sendRecord_meas { c with o := { c.o with queue := c.o.queue ++ [b] } } b
        simp [mA, this]
    · simp [mA]
  | pause => simp [exec, mA, pauseProducing_meas]
  | resume => simp [exec, resumeProducing_mA]
  | stopProducing => simp [exec, mA, pauseProducing_meas]
  | reg sc p s =>
    simp only [exec, opReg]
    split
    · simp [mA, Cfg.raiseOp, Cfg.emit]
    · split
      · simp [mA, Cfg.raiseOp, Cfg.emit]
      · split <;> simp [mA]
  | unreg sc => simp [exec, mA, opUnreg_meas]
  | close sc =>
    simp only [exec, opClose]
    split
    · simp [mA, Cfg.raiseOp, Cfg.emit]
    · split
      · simp [mA, opUnreg_meas]
      · simp
  | use =>
    simp only [exec, opUse]
    split
    · simp [mA, Cfg.raiseOp, Cfg.emit]
    · rw [resumeProducing_mA]; simp [mA]
  | stop =>
    simp only [exec, opStop]
    split
    · simp [mA, Cfg.raiseOp, Cfg.emit]
    · simp [mA, pauseProducing_meas]
  | pull p =>
    simp only [exec, opPull]
    split
    · split
      · simp
      · split
        · simp [mA, framesSize]
        · rename_i s ss h
          simp [mA, framesSize, h, scriptsSize]; omega
    · simp
  | failWrite => simp [exec, mA, Cfg.raiseOp, Cfg.emit]

theorem quiet_meas (c : Cfg) : (quiet c).stack = c.stack ∧ (quiet c).scripts = c.scripts ∧ (quiet c).o = c.o := by
  unfold quiet; split <;> simp

theorem raiseLoop_lt (c f : Cfg) (k : List Frame) (e : Exn) (hk : c.stack = .loop :: k)
    (h1 : f.stack = c.stack) (h2 : f.scripts = c.scripts) (h3 : f.o.unsent = c.o.unsent)
    (h4 : f.o.pausedSet = c.o.pausedSet) : Lt3 (meas (f.raiseLoop e)) (meas c) := by
  have hw := framesSize_unwind_le k
  have e1 : (f.raiseLoop e).stack = unwind k := by simp [Cfg.raiseLoop, h1, hk, unwind]
  have hA : mA (f.raiseLoop e) ≤ mA c := by
    simp only [mA, e1]; simp only [Cfg.raiseLoop, h2, hk, framesSize]; omega
  rcases Nat.lt_or_eq_of_le hA with hlt | heq
  · left; exact hlt
  · right; refine ⟨heq, Or.inr ⟨?_, ?_⟩⟩
    · simp [meas, mB, Cfg.raiseLoop, h3]
    · simp only [meas, mC, e1]; simp only [Cfg.raiseLoop, h4, hk, List.length_cons]; omega

theorem nextTurn_lt (c : Cfg) (k : List Frame) (p : Nat) (rest : List Nat) (hk : c.stack = .loop :: k)
    (_hu : c.o.unsent = []) : Lt3 (meas (nextTurn c p rest)) (meas c) := by
  unfold nextTurn
  split
  · exact raiseLoop_lt c _ k _ hk rfl rfl rfl rfl
  · rename_i hmem
    have hmem' : p ∈ c.o.pausedSet := by simpa using hmem
    have hl := sDel_length_lt hmem'
    unfold giveTurn
    split
    · right
      refine ⟨by simp [meas, mA], Or.inr ⟨by simp [meas, mB], ?_⟩⟩
      simp only [meas, mC]; omega
    · split
      · rename_i hs
        right
        refine ⟨?_, Or.inr ⟨by simp [meas, mB], ?_⟩⟩
        · simp only [meas, mA, framesSize]; simp at hs; simp [hs]
        · simp only [meas, mC, List.length_cons]; omega
      · rename_i s ss hs
        left
        simp only [meas, mA, framesSize] at *
        simp only [hs, scriptsSize]; omega

theorem step_lt (c : Cfg) (h : c.stack ≠ []) : Lt3 (meas (step c)) (meas c) := by
  unfold step
  split
  · exact absurd ‹_› h
  · -- loop
    rename_i k hk
    unfold loopStep
    split
    · -- paused: pop
      right; simp [meas, mA, mB, mC, hk, framesSize]
    · split
      · -- send a queued record
        rename_i b rest hu
        have := sendRecord_meas { c with o := { c.o with unsent := rest } } b
        right; refine ⟨by simp [meas, mA, this], Or.inl ?_⟩
        simp [meas, mB, this, hu]
      · rename_i hu
        split
        · exact raiseLoop_lt c c k _ hk rfl rfl rfl rfl
        · split
          · right; simp [meas, mA, mB, mC, hk, framesSize]
          · split
            · exact raiseLoop_lt c c k _ hk rfl rfl rfl rfl
            · exact nextTurn_lt c k _ _ hk hu
  · -- end of a turn
    rename_i k hk
    right; simp [meas, mA, mB, mC, hk, framesSize]
  · -- an exception leaves a push producer's turn
    rename_i r k hk
    have hw := framesSize_unwind_le k
    left
    simp only [meas, mA, hk, framesSize, List.length_cons]; omega
  · rename_i op r k _ hk
    left
    have := exec_mA { c with stack := .ops r :: k } op
    simp only [meas]
    have h2 : mA { c with stack := Frame.ops r :: k } + 1 = mA c := by
      simp [mA, hk, framesSize]; omega
    omega
  · -- end of a pull producer's turn
    rename_i sc k hk
    right; simp [meas, mA, mB, mC, hk, framesSize]
  · -- an exception leaves a pull producer's turn: `_pull` unregisters the adapter
    rename_i sc r k hk
    left
    have h1 := quiet_meas (opUnreg { c with stack := k } sc)
    have h2 := opUnreg_meas { c with stack := k } sc
    simp only [meas, mA, pullFailed, h1.1, h1.2.1, h2.1, h2.2, hk, framesSize, List.length_cons]; omega
  · rename_i sc op r k _ hk
    left
    have := exec_mA { c with stack := .pull sc r :: k } op
    simp only [meas]
    have h2 : mA { c with stack := Frame.pull sc r :: k } + 1 = mA c := by
      simp [mA, hk, framesSize]; omega
    omega

/-- run the call stack to quiescence (empty stack) -/
def run (c : Cfg) : Cfg :=
  if h : c.stack = [] then c else run (step c)
termination_by lt3_wf.wrap (meas c)
decreasing_by exact step_lt c ‹_›

/-- a top-level call: the caller performs `op`; turns inside it take `scripts` in order -/
def start (c : Cfg) (op : Op) (scripts : List (List Op)) : Cfg :=
  { c with stack := [.ops [op]], scripts := scripts }

/-! ## `Inbound`: pause bookkeeping

The object handed to `Inbound.use_connection` is a `DilatedConnectionProtocol`; what *it* does with
`pauseProducing()` / `resumeProducing()` is read from the generated call skeleton of the working
tree (it must forward to its TCP transport). -/

def dcpForwardsPause : Bool :=
  Gen.Skel.skeleton "DilatedConnectionProtocol.pauseProducing" == [("-", "transport.pauseProducing")]
def dcpForwardsResume : Bool :=
  Gen.Skel.skeleton "DilatedConnectionProtocol.resumeProducing" == [("-", "transport.resumeProducing")]

/-- exceptions that reach the caller of an Inbound-world operation -/
inductive IExn where
  | assertion        -- `assert scid not in self._open_subchannels` / `assert not self._protocol`
  | key              -- `self._open_subchannels[scid]` in `subchannel_closed`
  | noTransition     -- Automat: the SubChannel machine has no row for this input
  | alreadyClosed    -- `AlreadyClosedError` (outputs `error_closed_close` / `error_closed_write`)
  | normalOnHalf     -- `NormalCloseUsedOnHalfCloseable`
  | halfOnFull       -- `HalfCloseUsedOnNonHalfCloseable`
  | value            -- `ValueError`: already listening for this subprotocol
  deriving DecidableEq, Repr

def IExn.name : IExn → String
  | .assertion => "AssertionError" | .key => "KeyError" | .noTransition => "NoTransition"
  | .alreadyClosed => "AlreadyClosedError" | .normalOnHalf => "NormalCloseUsedOnHalfCloseable"
  | .halfOnFull => "HalfCloseUsedOnNonHalfCloseable" | .value => "ValueError"

/-- calls received by the TCP transport of connection number `g`, and exceptions -/
inductive IEv where
  | tPause (g : Nat)
  | tResume (g : Nat)
  | exc (e : IExn)
  -- what the applications do and are told (not calls on the transport; used by the statement of the property):
  | req (sc : Nat)       -- the application of `sc` called `transport.pauseProducing()`
  | unreq (sc : Nat)     -- … `resumeProducing()` / `stopProducing()`
  | opened (sc : Nat)    -- `sc` entered `_open_subchannels`
  | closed (sc : Nat)    -- `Inbound.subchannel_closed(sc)`: the subchannel is gone, its application has been told
  deriving DecidableEq, Repr

inductive IOp where
  | use                    -- `use_connection(c)` with a new connection object
  | stop                   -- `stop_using_connection()`
  | pause (sc : Nat)       -- `SubChannel.pauseProducing()` → `Manager` → `Inbound.subchannel_pauseProducing(sc)`
  | resume (sc : Nat)      -- `SubChannel.resumeProducing()` → … `subchannel_resumeProducing(sc)`
  | stopProducing (sc : Nat)
  | opn (sc : Nat)         -- `subchannel_local_open(scid, sc)` + `sc._set_protocol(<plain IProtocol>)`
  | opnHalf (sc : Nat)     -- the same with an `IHalfCloseableProtocol`
  | close (sc : Nat)       -- `Manager.subchannel_closed(scid, sc)` → `Inbound.subchannel_closed(scid, sc)` called directly
  | rclose (sc : Nat)      -- the peer's CLOSE: `Inbound.handle_close(scid)` → `sc.remote_close()`
  | lose (sc : Nat)        -- the application calls `sc.loseConnection()`
  | loseW (sc : Nat)       -- the application calls `sc.loseWriteConnection()`
  | ropen (sc : Nat)       -- the peer's OPEN for subprotocol "proto": `Inbound.handle_open(scid, "proto")`
  | rdata (sc : Nat)       -- the peer's DATA: `Inbound.handle_data(scid, data)` → `sc.remote_data(data)`
  | listen (mode : Nat)    -- the application listens for "proto": `Manager._register_subprotocol_factory`; the protocols
                           -- its factory builds: 0 = never pause, 1 = pause in `connectionMade`, 2 = pause at the first `dataReceived`
  deriving DecidableEq, Repr

structure Inb where
  pausedSc : List Nat := []      -- `_paused_subchannels`
  openSc : List Nat := []        -- keys of `_open_subchannels` (one SubChannel object per scid)
  conn : Option Nat := none      -- `_connection` (the number of the connection object)
  gen : Nat := 0                 -- connections created so far
  log : List IEv := []           -- newest first
  subs : List (Nat × Gen.SubChannel.State × Bool) := []   -- SubChannel objects: Automat state, "protocol is IHalfCloseableProtocol"
  listen : Option Nat := none            -- `SubchannelDemultiplex._factories["proto"]` (the mode of its protocols)
  parked : List Nat := []                -- `SubchannelDemultiplex._pending_opens["proto"]`
  pend : List (Nat × Nat × Bool) := []   -- per SubChannel: `len(_pending_remote_data)`, `_pending_remote_close`
  beh : List (Nat × Nat) := []           -- per SubChannel: what its (factory-built) protocol still intends to do
  deriving DecidableEq, Repr

/-- `self._connection.pauseProducing()` on connection `g` -/
def Inb.connPause (s : Inb) (g : Nat) : Inb := if dcpForwardsPause then { s with log := .tPause g :: s.log } else s
def Inb.connResume (s : Inb) (g : Nat) : Inb := if dcpForwardsResume then { s with log := .tResume g :: s.log } else s

/-- the tail shared by `subchannel_resumeProducing` and `subchannel_stopProducing` -/
def Inb.discard (s : Inb) (sc : Nat) : Inb :=
  match s.conn with
  | some g =>
    if !s.pausedSc.isEmpty && (sDel sc s.pausedSc).isEmpty then
      Inb.connResume { s with pausedSc := sDel sc s.pausedSc } g
    else { s with pausedSc := sDel sc s.pausedSc }
  | none => { s with pausedSc := sDel sc s.pausedSc }

def Inb.raise (s : Inb) (e : IExn) : Inb := { s with log := .exc e :: s.log }

/-- `Inbound.subchannel_closed(scid, sc)`:
    `assert self._open_subchannels[scid] is sc` (KeyError when not open); `del self._open_subchannels[scid]`;
    `self.subchannel_stopProducing(sc)`: a closed subchannel drops its pause, the connection is resumed if it was the last -/
def Inb.closeSub (s : Inb) (sc : Nat) : Inb :=
  if sc ∈ s.openSc then Inb.discard { s with openSc := sDel sc s.openSc, log := .closed sc :: s.log } sc
  else s.raise .key

/-- the application of `sc` calls `transport.pauseProducing()`: `SubChannel.pauseProducing` →
    `Manager.subchannel_pauseProducing` → `Inbound.subchannel_pauseProducing(sc)` -/
def Inb.appPause (s : Inb) (sc : Nat) : Inb :=
  match s.conn with
  | some g =>
    if s.pausedSc.isEmpty then Inb.connPause { s with pausedSc := sAdd sc s.pausedSc, log := .req sc :: s.log } g
    else { s with pausedSc := sAdd sc s.pausedSc, log := .req sc :: s.log }
  | none => { s with pausedSc := sAdd sc s.pausedSc, log := .req sc :: s.log }

/-- … `resumeProducing()` / `stopProducing()` -/
def Inb.appResume (s : Inb) (sc : Nat) : Inb := Inb.discard { s with log := .unreq sc :: s.log } sc

def Inb.pendOf (s : Inb) (sc : Nat) : Nat × Bool :=
  match s.pend.lookup sc with
  | some x => x
  | none => (0, false)

def Inb.setPend (s : Inb) (sc : Nat) (x : Nat × Bool) : Inb :=
  { s with pend := (sc, x) :: s.pend.filter (fun e => e.1 != sc) }

def Inb.behOf (s : Inb) (sc : Nat) : Nat :=
  match s.beh.lookup sc with
  | some x => x
  | none => 0

def Inb.setBeh (s : Inb) (sc : Nat) (b : Nat) : Inb :=
  { s with beh := (sc, b) :: s.beh.filter (fun e => e.1 != sc) }

/-- `protocol.dataReceived(data)`: a mode-2 protocol asks for a pause the first time -/
def Inb.appData (s : Inb) (sc : Nat) : Inb :=
  if s.behOf sc == 2 then Inb.appPause (s.setBeh sc 0) sc else s

/-- a SubChannel object is created `unconnected`, without a protocol -/
def Inb.scState (s : Inb) (sc : Nat) : Gen.SubChannel.State × Bool :=
  match s.subs.lookup sc with
  | some x => x
  | none => (Gen.SubChannel.init, false)

def Inb.setSc (s : Inb) (sc : Nat) (x : Gen.SubChannel.State × Bool) : Inb :=
  { s with subs := (sc, x) :: s.subs.filter (fun e => e.1 != sc) }

/-- the outputs of one SubChannel transition, in order; an exception ends them.  Only
    `close_subchannel` (→ `Manager.subchannel_closed` → `Inbound.subchannel_closed`) and the two
    `error_*` outputs matter here; `send_*` go to Outbound's queue, `signal_*` to the application. -/
def runOuts (s : Inb) (sc : Nat) : List Gen.SubChannel.Output → Inb
  | [] => s
  | .close_subchannel :: r => if sc ∈ s.openSc then runOuts (s.closeSub sc) sc r else s.raise .key
  | .error_closed_close :: _ => s.raise .alreadyClosed
  | .error_closed_write :: _ => s.raise .alreadyClosed
  | .signal_dataReceived :: r => runOuts (s.appData sc) sc r
  -- before there is a protocol: `self._pending_remote_data.append(data)` / `self._pending_remote_close = True`
  -- (nothing else: in particular the subchannel itself never pauses or resumes the connection)
  | .queue_remote_data :: r => runOuts (s.setPend sc ((s.pendOf sc).1 + 1, (s.pendOf sc).2)) sc r
  | .queue_remote_close :: r => runOuts (s.setPend sc ((s.pendOf sc).1, true)) sc r
  | _ :: r => runOuts s sc r

/-- one input of the SubChannel machine of `sc`, through the generated table (new state first, then outputs) -/
def scInput (s : Inb) (sc : Nat) (inp : Gen.SubChannel.Input) : Inb :=
  match Gen.SubChannel.table (s.scState sc).1 inp with
  | none => s.raise .noTransition
  | some (st', outs) => runOuts (s.setSc sc (st', (s.scState sc).2)) sc outs

/-- `subchannel_local_open(scid, sc)` then `sc._set_protocol(p)` -/
def openSub (s : Inb) (sc : Nat) (half : Bool) : Inb :=
  if sc ∈ s.openSc then s.raise .assertion                        -- `assert scid not in self._open_subchannels`
  else if (s.scState sc).1 != Gen.SubChannel.init then
    Inb.raise { s with openSc := sAdd sc s.openSc, log := .opened sc :: s.log } .assertion   -- `assert not self._protocol`
  else
    scInput (Inb.setSc { s with openSc := sAdd sc s.openSc, log := .opened sc :: s.log } sc (Gen.SubChannel.init, half)) sc
      (if half then .connect_protocol_half else .connect_protocol_full)

/-- the `for data in self._pending_remote_data: self.remote_data(data)` loop of `_deliver_queued_data` -/
def deliverData (s : Inb) (sc : Nat) : Nat → Inb
  | 0 => s
  | n + 1 => deliverData (scInput s sc .remote_data) sc n

/-- `p.makeConnection(t)`: a mode-1 protocol pauses its transport in `connectionMade` -/
def connectMade (s : Inb) (sc mode : Nat) : Inb := if mode == 1 then s.appPause sc else s

/-- the tail of `_deliver_queued_data`: `del self._pending_remote_data`; the queued CLOSE if any -/
def connectFinish (s : Inb) (sc : Nat) : Inb :=
  if (s.pendOf sc).2 then scInput (s.setPend sc (0, false)) sc .remote_close else s.setPend sc (0, false)

def connectDeliver (s : Inb) (sc : Nat) : Inb := connectFinish (deliverData s sc (s.pendOf sc).1) sc

/-- `SubchannelDemultiplex._connect(factory, t, peer_addr)`: `p = factory.buildProtocol()`; `t._set_protocol(p)`;
    `p.makeConnection(t)` (a mode-1 protocol pauses its transport in `connectionMade`); `t._deliver_queued_data()`:
    the queued DATA, `del`, then the queued CLOSE if any — and nothing else -/
def connectApp (s : Inb) (sc : Nat) (mode : Nat) : Inb :=
  connectDeliver (connectMade (scInput (s.setBeh sc mode) sc .connect_protocol_full) sc mode) sc

def connectAll (s : Inb) (mode : Nat) : List Nat → Inb
  | [] => s
  | sc :: r => connectAll (connectApp s sc mode) mode r

def istep (s : Inb) : IOp → Inb
  | .use =>
    if !s.pausedSc.isEmpty then Inb.connPause { s with conn := some (s.gen + 1), gen := s.gen + 1 } (s.gen + 1)
    else { s with conn := some (s.gen + 1), gen := s.gen + 1 }
  | .stop => { s with conn := none }
  | .pause sc => s.appPause sc
  -- `SubChannel.resumeProducing/stopProducing` forward unconditionally, in every state of the subchannel
  -- (`Gen.Flags.subchannel_resume_is_plain_forward`, pinned by `skeleton_agrees`)
  | .resume sc => s.appResume sc
  | .stopProducing sc => s.appResume sc
  | .opn sc => openSub s sc false
  | .opnHalf sc => openSub s sc true
  | .close sc => s.closeSub sc
  | .rclose sc =>
    -- `handle_close`: `sc = self._open_subchannels.get(scid)`; missing → log.err and return
    if sc ∈ s.openSc then scInput s sc .remote_close else s
  | .lose sc =>
    if (s.scState sc).2 then s.raise .normalOnHalf else scInput s sc .local_close
  | .loseW sc =>
    if (s.scState sc).2 then scInput s sc .local_close else s.raise .halfOnFull
  | .ropen sc =>
    -- `handle_open`: duplicate → log.err; else a NEW SubChannel object, `_open_subchannels[scid] = sc`, `_got_open`
    if sc ∈ s.openSc then s
    else
      let s1 := Inb.setBeh (Inb.setPend (Inb.setSc { s with openSc := sAdd sc s.openSc, log := .opened sc :: s.log }
                  sc (Gen.SubChannel.init, false)) sc (0, false)) sc 0
      match s1.listen with
      | some mode => connectApp s1 sc mode
      | none => { s1 with parked := s1.parked ++ [sc] }
  | .rdata sc =>
    -- `handle_data`: missing subchannel → log.err and return
    if sc ∈ s.openSc then scInput s sc .remote_data else s
  | .listen mode =>
    -- `SubchannelDemultiplex.register`
    if s.listen.isSome then s.raise .value
    else connectAll { s with listen := some mode, parked := [] } mode s.parked

/-! ## driver (line protocol)

```
o <op> [/ <op> <op> … [/ …]]      one top-level Outbound call; each `/`-segment is the script of one turn, in turn order
i use | i stop | i p <sc> | i r <sc> | i s <sc> | i o <sc> | i oh <sc> | i c <sc> | i rc <sc> | i l <sc> | i lw <sc>
  | i ro <sc> | i rd <sc> <KiB> | i li <mode>
op ::= X | w0 | w1 | P | R | S | r:<sc>:<p>:<0|1> | u:<sc> | c:<sc> | U | D | pl:<p>
```
answer to `o`: `<calls since the line started, oldest first> | <state>`;
answer to `i`: `<transport calls> | <state>`. -/

def readOp? (t : String) : Option Op :=
  match t.splitOn ":" with
  | ["w0"] => some (.write false)
  | ["w1"] => some (.write true)
  | ["P"] => some .pause
  | ["R"] => some .resume
  | ["S"] => some .stopProducing
  | ["U"] => some .use
  | ["D"] => some .stop
  | ["X"] => some .failWrite
  | ["r", sc, p, s] => do pure (.reg (← sc.toNat?) (← p.toNat?) (s == "1"))
  | ["u", sc] => do pure (.unreg (← sc.toNat?))
  | ["c", sc] => do pure (.close (← sc.toNat?))
  | ["pl", p] => do pure (.pull (← p.toNat?))
  | _ => none

def showEv : Ev → Option String
  | .pause p => some s!"p{p}"
  | .resume p => some s!"r{p}"
  | .stop p => some s!"x{p}"
  | .pulled p => some s!"t{p}"
  | .reg _ => none
  | .unreg _ => none
  | .send b => some (if b then "s1" else "s0")
  | .tReg => some "TR"
  | .tUnreg => some "TU"
  | .exc e => some ("!" ++ e.name)

def showList (l : List Nat) : String := ",".intercalate (l.map toString)
def sorted (l : List Nat) : List Nat := l.mergeSort (fun a b => a ≤ b)
def b01 (b : Bool) : String := if b then "1" else "0"
def orDash (s : String) : String := if s.isEmpty then "-" else s

def showOut (c : Cfg) : String :=
  s!"paused={b01 c.o.paused} all={showList c.o.allp} P={showList (sorted c.o.pausedSet)} U={showList (sorted c.o.unpausedSet)} pulls={showList (sorted c.o.pulls)} conn={b01 c.o.conn} unsent={c.o.unsent.length} left={c.scripts.length}"

def showIEv : IEv → Option String
  | .tPause g => some s!"tp{g}"
  | .tResume g => some s!"tr{g}"
  | .exc e => some ("!" ++ e.name)
  | _ => none

def showInb (s : Inb) : String :=
  let scs := (sorted (s.subs.map (·.1))).filter (fun n => (s.scState n).1 != Gen.SubChannel.init)
  let sub := ",".intercalate (scs.map fun n => s!"{n}:{Gen.SubChannel.State.name (s.scState n).1}")
  s!"paused={showList (sorted s.pausedSc)} open={showList (sorted s.openSc)} conn={match s.conn with | some g => toString g | none => "-"} sub={sub} parked={showList s.parked} pend={",".intercalate ((sorted (s.pend.map (·.1))).filterMap fun n => if (s.pendOf n).1 == 0 && !(s.pendOf n).2 then none else some s!"{n}:{(s.pendOf n).1}{if (s.pendOf n).2 then "c" else ""}")}"

structure DrvSt where
  c : Cfg := {}
  i : Inb := {}

def readIOp? : List String → Option IOp
  | ["use"] => some .use
  | ["stop"] => some .stop
  | ["p", sc] => sc.toNat?.map .pause
  | ["r", sc] => sc.toNat?.map .resume
  | ["s", sc] => sc.toNat?.map .stopProducing
  | ["o", sc] => sc.toNat?.map .opn
  | ["oh", sc] => sc.toNat?.map .opnHalf
  | ["c", sc] => sc.toNat?.map .close
  | ["rc", sc] => sc.toNat?.map .rclose
  | ["l", sc] => sc.toNat?.map .lose
  | ["lw", sc] => sc.toNat?.map .loseW
  | ["ro", sc] => sc.toNat?.map .ropen
  | ["rd", sc, _kib] => sc.toNat?.map .rdata
  | ["li", m] => m.toNat?.map .listen
  | _ => none

def drvStep (s : DrvSt) (line : String) : DrvSt × String :=
  if tokens line == ["reset"] then ({}, "ok") else
  match line.splitOn "/" with
  | [] => (s, "bad-op")
  | first :: segs =>
    match tokens first with
    | ["o", t] =>
      match readOp? t, segs.mapM (fun seg => (tokens seg).mapM readOp?) with
      | some op, some scripts =>
        let c' := run (start s.c op scripts)
        let evs := ((c'.log.take (c'.log.length - s.c.log.length)).reverse).filterMap showEv
        ({ s with c := c' }, orDash (",".intercalate evs) ++ " | " ++ showOut c')
      | _, _ => (s, "bad-op")
    | "i" :: rest =>
      match readIOp? rest with
      | some op =>
        let i' := istep s.i op
        let evs := ((i'.log.take (i'.log.length - s.i.log.length)).reverse).filterMap showIEv
        ({ s with i := i' }, orDash (",".intercalate evs) ++ " | " ++ showInb i')
      | none => (s, "bad-op")
    | _ => (s, "bad-op")

def driver (lines : List String) : List String := runLines drvStep {} lines

end WV.C15
