import WV.Model.C11
import Std.Data.HashMap
open WV.C11

def showEv : Event → String
  | .key x => s!"key {x.name}" | .vers x => s!"vers {x.name}" | .dilate x => s!"dilate {x.name}"
  | .deliver x => s!"deliver {x.name}" | .connect x => s!"connect {x.name}" | .dial x => s!"dial {x.name}" | .cut x => s!"cut {x.name}" | .turn1 x => s!"turn1 {x.name}"
  | .sigrec x => s!"sigrec {x.name}" | .hs l => s!"hs {l}" | .kcmf l => s!"kcmf {l}" | .kcml l => s!"kcml {l}"
  | .lose x l => s!"lose {x.name} {l}"
  | .write x => s!"write {x.name}" | .tick x => s!"tick {x.name}"
  | .silence x l => s!"silence {x.name} {l}" | .more x l => s!"more {x.name} {l}"

partial def bfsP (p : Abs) (frontier : Array Sys) (seen : Std.HashMap Sys (Option (Sys × Event))) (limit : Nat)
    : Std.HashMap Sys (Option (Sys × Event)) × Array (Sys × Event) := Id.run do
  let mut seen := seen
  let mut frontier := frontier
  let mut bad : Array (Sys × Event) := #[]
  while !frontier.isEmpty do
    let mut next : Array Sys := #[]
    for s in frontier do
      for e in allEventsP p do
        if enabledP p s e then
          if !safeStep s e then
            bad := bad.push (s, e)
          let t := (step s e).1
          if !seen.contains t then
            seen := seen.insert t (some (s, e))
            next := next.push t
    if seen.size > limit then
      return (seen, bad)
    frontier := next
  return (seen, bad)

partial def traceTo (seen : Std.HashMap Sys (Option (Sys × Event))) (s : Sys) (acc : List Event) : List Event :=
  match seen.get? s with
  | some (some (p, e)) => traceTo seen p (e :: acc)
  | _ => acc

def grow (p : Abs) (L : List Sys) (G : Std.HashSet Sys) : Std.HashSet Sys :=
  L.foldl (fun g s =>
    if g.contains s then g
    else if (allEventsP p).any (fun e => coop s e && enabledP p s e && G.contains (step s e).1) then g.insert s else g) G

def iter (p : Abs) : Nat → List Sys → Std.HashSet Sys → Std.HashSet Sys
  | 0, _, G => G
  | n + 1, L, G => let G' := grow p L G; if G'.size == G.size then G else iter p n L G'

def main (args : List String) : IO Unit := do
  let limit := (args.head?.bind String.toNat?).getD 3000000
  let p : Abs := if args.contains "S" then absS else if args.contains "R" then absR else absK
  let seen0 : Std.HashMap Sys (Option (Sys × Event)) := p.inits.foldl (fun h s => h.insert s none) {}
  let (seen, bad) := bfsP p p.inits.toArray seen0 limit
  IO.println s!"states {seen.size} unsafe-steps {bad.size}"
  let mut kinds : Std.HashMap String Nat := {}
  for (s, e) in bad.toList.take 3 do
    let (s', oc) := step s e
    IO.println s!"UNSAFE {showEv e} -> {outcomeStr oc} inv={inv s'}"
    IO.println ("  " ++ showConc { sys := s })
    IO.println ("  " ++ showConc { sys := s' })
    IO.println ("  trace: " ++ "; ".intercalate ((traceTo seen s [] ++ [e]).map showEv))
  let L0 := seen.toList.map (·.1)
  -- classified failures
  let mut nAcc := 0
  let mut nCand := 0
  let mut firstCand : Option (Sys × Event) := none
  for (s, _) in seen.toList do
    for e in allEventsP p do
      if enabledP p s e then
        let oc := (step s e).2
        if isStoppedAccept oc then nAcc := nAcc + 1
        if isStoppedCandidate oc then
          nCand := nCand + 1
          if firstCand.isNone then firstCand := some (s, e)
  IO.println s!"stopped-accept steps {nAcc} stopped-add_candidate steps {nCand}"
  match firstCand with
  | some (s, e) => IO.println ("  witness: " ++ "; ".intercalate ((traceTo seen s [] ++ [e]).map showEv))
  | none => pure ()
  match L0.find? goal with
  | some g => IO.println ("  goal trace: " ++ "; ".intercalate ((traceTo seen g []).map showEv))
  | none => pure ()
  let L := seen.toList.map (·.1)
  if args.contains "trap" then
    let G := iter p 400 L (Std.HashSet.ofList (L.filter goal))
    let traps := L.filter (fun s => !G.contains s)
    IO.println s!"goal-states {(L.filter goal).length} can-reach-goal {G.size} traps {traps.length}"
    for s in traps.take 4 do
      IO.println ("  TRAP " ++ showConc { sys := s })
      IO.println ("    trace: " ++ "; ".intercalate ((traceTo seen s []).map showEv))
