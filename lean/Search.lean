import WV.Model.ClientEnv
import WV.Model.ClientData
import Std.Data.HashMap
import WV.Proofs.Closable
import WV.Model.PossibleExec

/-! `wvsearch`: explicit-state search over the closed client×environment system.
    Prints the size of the reachable set and, if some enabled step is unsafe, a shortest event
    trace to it in the line syntax of the CLIENT driver. -/
open WV.Client WV.ClientEnv

def showEvent : Event → String
  | .setCode v => s!"setcode {if v then 1 else 0}"
  | .allocateCode => "allocate" | .inputCode => "inputcode"
  | .hRefresh => "h refresh" | .hNameplateCompletions => "h npc"
  | .hChooseNameplate v => s!"h choosenp {if v then 1 else 0}"
  | .hWordCompletions => "h wc" | .hChooseWords => "h choosewords"
  | .send => "send" | .close => "close" | .wsOpen => "open" | .wsClose => "drop" | .wsFail => "wsfail" | .tcpUp => "tcpup" | .wsClosing => "wsclosing"
  | .failInitial => "failinitial" | .svcStopped => "svcstopped"
  | .welcome e => s!"welcome {if e then 1 else 0}"
  | .claimed => "claimed" | .released => "released" | .closedResp => "closed" | .allocated => "allocated"
  | .nameplates => "nameplates" | .ack => "ack" | .serverError => "error"
  | .message side ph new good pk =>
    let sd := match side with | .ours => "ours" | .theirs => "theirs"
    let p := match ph with | .pake => "pake" | .version => "version" | .num => "num" | .dilate => "dilate" | .other => "other"
    let k := match pk with | .good => "good" | .noField => "nofield" | .invalid => "invalid"
    s!"msg {sd} {p} {if new then 1 else 0} {if good then 1 else 0} {k}"

partial def bfsP (en safe : Sys → Event → Bool) (frontier : Array Sys) (seen : Std.HashMap Sys (Option (Sys × Event)))
    (limit : Nat) : Std.HashMap Sys (Option (Sys × Event)) × Option (Sys × Event) := Id.run do
  let mut seen := seen
  let mut frontier := frontier
  while !frontier.isEmpty do
    let mut next : Array Sys := #[]
    for s in frontier do
      for e in allEvents do
        if en s e then
          if !safe s e then
            return (seen, some (s, e))
          let t := (sysStep s e).1
          if !seen.contains t then
            seen := seen.insert t (some (s, e))
            next := next.push t
    if seen.size > limit then
      return (seen, none)
    frontier := next
  return (seen, none)

partial def traceTo (seen : Std.HashMap Sys (Option (Sys × Event))) (s : Sys) (acc : List Event) : List Event :=
  match seen.get? s with
  | some (some (p, e)) => traceTo seen p (e :: acc)
  | _ => acc

def main (args : List String) : IO Unit := do
  let limit := (args.head?.bind String.toNat?).getD 5000000
  let seen0 : Std.HashMap Sys (Option (Sys × Event)) := inits.foldl (fun h s => h.insert s none) {}
  let fifo := args.contains "fifo"
  let (seen, bad) := if fifo then bfsP enabledFifo safeStepFifo inits.toArray seen0 limit else bfsP enabled safeStep inits.toArray seen0 limit
  IO.println s!"states {seen.size}"
  let en := if fifo then enabledFifo else enabled
  let ntrans := seen.fold (fun n s _ => n + (allEvents.filter (fun e => en s e)).length) 0
  IO.println s!"transitions {ntrans}"
  if args.contains "closable" then
    let L := seen.toList.map (·.1)
    let G := WV.Closable.iter 80 L (Std.HashSet.ofList (L.filter WV.Closable.done))
    let bad := L.filter (fun s => s.env.appClosed && !G.contains s)
    IO.println s!"not-closable {bad.length}"
    for s in bad.take 5 do
      IO.println s!"  {WV.ClientData.showStates s.ctl} ws={s.ctl.wsOpen} stopPending={s.ctl.stopPending} svcStopped={s.env.svcStopped} singles={repr s.env.singles} welcomed={s.env.welcomed}"
  if args.contains "kx" then
    let L := seen.toList.map (·.1)
    let st := WV.Possible.stuck WV.Possible.coopKx WV.Possible.kxDone WV.Possible.kxSrc 120 L
    IO.println s!"kx-src {(L.filter WV.Possible.kxSrc).length} kx-stuck {st.length}"
    for s in st.take 6 do
      IO.println s!"  {WV.ClientData.showStates s.ctl} ws={s.ctl.wsOpen} half={s.ctl.halfOpen} pendPake={s.env.pendPake} pendVersion={s.env.pendVersion} srvPake={s.env.srvPake} srvVersion={s.env.srvVersion} peerKey={repr s.env.peerKey} pakeProcessed={s.ctl.pakeProcessed} versionProcessed={s.ctl.versionProcessed} q={repr s.ctl.orderQ} singles={repr s.env.singles} welcomed={s.env.welcomed} opened={s.env.opened}"
  match bad with
  | none => IO.println "unsafe none"
  | some (s, e) =>
    let tr := traceTo seen s [] ++ [e]
    let (s', oc) := sysStep s e
    IO.println s!"unsafe matchKey={s.env.matchKey} outcome={WV.ClientData.showOutcome oc} closedCount={s'.mon.closedCount} afterClosed={s'.mon.afterClosed} rbv={s'.mon.recvBeforeVersions} dup={s'.mon.dup} order={s'.mon.order} verdictBad={s'.mon.verdictBad} resourceBad={s'.mon.resourceBad}"
    for ev in tr do
      IO.println (showEvent ev)
