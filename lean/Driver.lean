import WV.Model.C12
import WV.Model.ClientData
import WV.Model.C05
import WV.Model.C10
import WV.Model.C20
import WV.Model.C06
import WV.Model.C07
import WV.Model.C19
import WV.Model.C13
import WV.Model.C15
import WV.Model.C01
import WV.Model.C04
import WV.Model.C02
import WV.Model.C03
import WV.Model.C16
import WV.Model.Observer
import WV.Model.C17
import WV.Model.C11
import WV.Model.C18

/-! Line-protocol driver over the executable models.  First stdin line names the model
    (`C12`, …); every following line is one operation; one output line per operation. -/

partial def readAll (h : IO.FS.Stream) (acc : Array String) : IO (Array String) := do
  let line ← h.getLine
  if line.isEmpty then return acc
  let l := if line.back == '\n' then line.dropRight 1 else line
  readAll h (acc.push l)

def dispatch (which : String) (lines : List String) : List String :=
  match which with
  | "C12" => WV.C12.driver lines
  | "CLIENT" => WV.ClientData.driver lines
  | "C05" => WV.C05.driver lines
  | "C10" => WV.C10.driver lines
  | "C20" => WV.C20.driver lines
  | "C06" => WV.C06.driver lines
  | "C07" => WV.C07.driver lines
  | "C19" => WV.C19.driver lines
  | "C13" => WV.C13.driver lines
  | "C15" => WV.C15.driver lines
  | "C01" => WV.C01.driver lines
  | "C04" => WV.C04.driver lines
  | "C02" => WV.C02.driver lines
  | "C03" => WV.C03.driver lines
  | "C16" => WV.C16.driver lines
  | "OBSERVER" => WV.Observer.driver lines
  | "C17" => WV.C17.driver lines
  | "C11" => WV.C11.driver lines
  | "C18E" => WV.C18.driver lines
  | _ => ["unknown-model " ++ which]

def main : IO Unit := do
  let stdin ← IO.getStdin
  let lines ← readAll stdin #[]
  match lines.toList with
  | [] => pure ()
  | which :: rest =>
    let out := dispatch which.trim rest
    let stdout ← IO.getStdout
    stdout.putStr ("\n".intercalate out ++ "\n")
