import WV.Gen.Tables
import WV.Gen.Consts
import WV.Gen.Words
import WV.Gen.Skel
import WV.Gen.Flags
import WV.Model.Basic
import WV.Model.C12
import WV.Props.C12
