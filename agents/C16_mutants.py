import os, shutil, sys
ROOT = "/tmp/m16"
def mk(name, f):
    d = f"{ROOT}/{name}"
    shutil.rmtree(d, ignore_errors=True)
    shutil.copytree("/repo/src", d)
    p = f"{d}/wormhole/_dilation/manager.py"; s = open(p).read(); t = f(s); assert t != s, name; open(p, "w").write(t)
mk("m1", lambda s: s.replace("""    connected.upon(
        traffic_seen,
        enter=connected,
        outputs=[]
    )""", """    connected.upon(
        traffic_seen,
        enter=connected,
        outputs=[begin_timing]
    )"""))
mk("m2", lambda s: s.replace("""        enter=connected,
        outputs=[signal_reconnect]""", """        enter=connected,
        outputs=[]"""))
mk("m3", lambda s: s.replace("        if self._my_role == LEADER:\n            # if we have just RE-connected", "        if True:\n            # if we have just RE-connected"))
mk("m4", lambda s: s.replace("""        # the connection is already lost by this point
        if self._timer is not None:
            self._timer.cancel()
            self._timer = None
""", """        # the connection is already lost by this point
"""))
mk("m5", lambda s: s.replace("""    idle_traffic.upon(
        traffic_seen,
        enter=connected,""", """    idle_traffic.upon(
        traffic_seen,
        enter=idle_traffic,"""))
mk("m6", lambda s: s.replace("self._timer = self._reactor.callLater(self._ping_interval, timer_expired)", "self._timer = self._reactor.callLater(self._ping_interval * 2, timer_expired)"))
mk("m7", lambda s: s.replace("""        # been told to shut down.
        if self._timer is not None:
            self._timer.cancel()
            self._timer = None
""", """        # been told to shut down.
"""))
# m8: swapped order of the two statements in timer_expired
mk("m8", lambda s: s.replace("""                self._timer = None
                self._traffic.interval_elapsed()""", """                self._traffic.interval_elapsed()
                self._timer = None"""))
# m9: dead branch changed: delay -> reset (unreachable on the fixed tree: must NOT raise an alarm)
mk("m9", lambda s: s.replace("self._timer.delay(self._ping_interval)", "self._timer.reset(self._ping_interval)"))
# m10: pong callback never invoked
mk("m10", lambda s: s.replace("""            if on_pong is not None:
                on_pong(self._reactor.seconds() - start)""", """            if on_pong is None:
                on_pong(self._reactor.seconds() - start)"""))
# m11: connected --interval_elapsed--> stays connected (a single missed interval is forgotten)
mk("m11", lambda s: s.replace("""    connected.upon(
        interval_elapsed,
        enter=idle_traffic,""", """    connected.upon(
        interval_elapsed,
        enter=connected,"""))
# m12: leader guard removed altogether
mk("m12", lambda s: s.replace("""        if self._my_role == LEADER:
            # if we have just RE-connected, then we'll already have a
            # _traffic instance but the first time we connect we do not
            if self._traffic is None:
                self._traffic = TrafficTimer(self._signal_reconnect, self._send_ping_reset_timer)
            self._traffic.got_connection()
""", """        if self._traffic is None:
            self._traffic = TrafficTimer(self._signal_reconnect, self._send_ping_reset_timer)
        self._traffic.got_connection()
"""))
# m13: _signal_reconnect guard inverted
mk("m13", lambda s: s.replace("""        if self._connection:
            self._connection.disconnect()""", """        if not self._connection:
            self._connection.disconnect()"""))
mk("m14", lambda s: s.replace("self._timer = self._reactor.callLater(self._ping_interval, timer_expired)", "self._timer = self._reactor.callLater(self._ping_interval / 3, timer_expired)"))
mk("m15", lambda s: s.replace("self._timer = self._reactor.callLater(self._ping_interval, timer_expired)", "self._timer = self._reactor.callLater(self._ping_interval * 1.5, timer_expired)"))
# m16: lost_connection not delivered to the TrafficTimer
mk("m16", lambda s: s.replace("""        if self._traffic is not None:
            self._traffic.lost_connection()
        self._stop_using_connection()""", """        self._stop_using_connection()"""))
# m17: use_connection before got_connection (first ping would reach the wire) -- a behaviour change the skeleton sees
