import WV.Model.C06
import WV.Gen.C06

/-!
C06 — the queues of `transit.Connection` are unbounded.

The model's `App.inbound : List Bytes` (`_inbound_records`) and `App.waiting` (`_waiting_reads`) have no
capacity: `recordReceived` appends, nothing is ever discarded, and `delivery_exact` / `backlog_kept_whole`
quantify over backlogs of any length.  That is the code's behaviour only if the containers the constructor
builds have no capacity either: a `deque(maxlen=n)` neither blocks nor raises when full, it silently drops
from the other end — authenticated records from the head of the stream, or pending reads.  The translator
builds a `Connection` and reports the container type and `maxlen` of both queues on every run.
-/
namespace WV.Props.C06
open WV WV.C06

/-- **the parked-record queue and the read queue are unbounded** (as regenerated from /repo): plain `deque`s
    (or lists) without `maxlen` -/
theorem parked_queue_unbounded :
    Gen.C06.inbound_records_maxlen = none ∧ Gen.C06.waiting_reads_maxlen = none ∧
    Gen.C06.inbound_records_type ∈ ["deque", "list"] ∧ Gen.C06.waiting_reads_type ∈ ["deque", "list"] := by
  decide

end WV.Props.C06
