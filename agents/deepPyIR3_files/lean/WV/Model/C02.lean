import WV.Model.Basic
import WV.Gen.T_Mailbox
import WV.Gen.T_Terminator
import WV.Gen.T_Key
import WV.Gen.T_SortedKey
import WV.Gen.T_Order
import WV.Gen.T_Receive
import WV.Gen.T_Send
import WV.Gen.T_Boss
import WV.Gen.C02
import WV.Gen.Skel

/-!
C02 — the mailbox server cannot forge, alter, re-label, replay or reflect messages.

Executable model of the receive path of one mailbox client:

  RendezvousConnector.ws_message / _response_handle_message   (exception ⇒ `Boss.error`, re-raised)
  Mailbox.rx_message (echo split on `side`), N_release_and_accept (per-phase dedup `_processed`)
  Order (queue until the PAKE message, then drain), Key / _SortedKey (got_pake, compute_key)
  Receive.got_message  (key = derive_phase_key(key, side, phase); CryptoError ⇒ got_message_bad)
  Boss.got_message dispatch (version / dilate-N / numeric / ignored) and the two reorder buffers
  Send, Mailbox.add_message/close, Terminator.close — as far as the receive path calls into them.

All Automat tables are the generated ones (`WV.Gen.*`); this file gives the bodies of the outputs
and of the plain methods.  The shape of `derive_phase_key`'s HKDF `purpose` is generated too
(`WV.Gen.C02.phasePurpose`) and *interpreted* here, so dropping `side` or `phase` from it changes
`purpose` and kills `Props.C02.phaseKey_injective`.

Cryptography is a structure of operations (`Crypto`); its ideal properties are the hypothesis
structure `Crypto.Ideal` (never axioms); `toy` is the instance the driver runs and for which
`Ideal` is proved in `WV/Proofs/C02.lean`.
-/
namespace WV.C02
open WV WV.Gen

/-! ## crypto and codec interface -/

/-- what `bytes_to_dict(body)` / `"pake_v1" in payload` / `hexstr_to_bytes` make of a PAKE body -/
inductive PakeMsg where
  | raise                 -- not JSON / not a dict / value not hex: an exception, caught in `got_pake` (⇒ bad)
  | missing               -- a dict without `pake_v1`
  | elem (e : Bytes)      -- `pake_v1` present, decoded
  deriving DecidableEq, Repr

/-- what `self._sp.finish(msg2)` does, as far as `compute_key` can tell -/
inductive PakeResult where
  | key (k : Bytes)
  | refused     -- raises AssertionError / ValueError / SPAKEError / NotOnCurve (malformed, off-side, off-curve,
                -- reflected — every class spake2's `finish` raises): caught ⇒ `B.scared()`
  deriving DecidableEq, Repr

structure Crypto where
  sha256 : Bytes → Bytes
  /-- `HKDF(key, 32, CTXinfo=info)` -/
  hkdf : Bytes → Bytes → Bytes
  /-- `SecretBox(key).encrypt(plaintext, nonce)`; the 24 random nonce bytes are a number here -/
  boxSeal : Bytes → Nat → Bytes → Bytes
  /-- `SecretBox(key).decrypt(c)`; `none` = `CryptoError` -/
  boxOpen : Bytes → Bytes → Option Bytes
  /-- `SPAKE2_Symmetric(password).start()` for a given secret scalar -/
  pakeStart : Bytes → Bytes → Bytes
  /-- `.finish(msg2)`; `none` = the exception spake2 raises (reflection, wrong side, bad element), which
      `compute_key` turns into `B.scared()` -/
  pakeFinish : Bytes → Bytes → Bytes → PakeResult
  pakeEncode : Bytes → Bytes
  pakeDecode : Bytes → PakeMsg
  /-- does `bytes_to_dict(plaintext)` succeed in `Boss.process_version` -/
  versionOk : Bytes → Bool

/-- the ideal properties the theorems assume (hypotheses, never axioms) -/
structure Crypto.Ideal (C : Crypto) : Prop where
  sha_inj : ∀ a b, C.sha256 a = C.sha256 b → a = b
  sha_len : ∀ a b, (C.sha256 a).length = (C.sha256 b).length
  hkdf_inj : ∀ k k' i j, C.hkdf k i = C.hkdf k' j → k = k' ∧ i = j
  /-- authenticity: whatever opens under `k` is a sealing under `k` of exactly that plaintext -/
  box_auth : ∀ k c p, C.boxOpen k c = some p → ∃ n, c = C.boxSeal k n p
  box_open : ∀ k n p, C.boxOpen k (C.boxSeal k n p) = some p
  /-- a sealing under `k` opens under no other key -/
  box_key : ∀ k k' n p, k ≠ k' → C.boxOpen k' (C.boxSeal k n p) = none
  /-- SPAKE2_Symmetric refuses its own element -/
  pake_reflect : ∀ s pw, C.pakeFinish s pw (C.pakeStart s pw) = .refused

/-! ## derive_phase_key -/

/-- `s.encode("ascii")`; `none` = `UnicodeEncodeError` -/
def asciiEncode (s : String) : Option Bytes :=
  let l := s.toList.map Char.toNat
  if l.all (· < 128) then some l else none

/-- bytes of one operand of the generated `purpose` concatenation -/
def partBytes (C : Crypto) (side phase : Bytes) : Gen.C02.Part → Bytes
  | .const b => b
  | .sha256 p _ => if p = "side" then C.sha256 side else if p = "phase" then C.sha256 phase else []
  | .raw p _ => if p = "side" then side else if p = "phase" then phase else []
  | .other _ => []

/-- `purpose` of `derive_phase_key`, from the generated operand list -/
def purpose (C : Crypto) (side phase : Bytes) : Bytes :=
  (Gen.C02.phasePurpose.map (partBytes C side phase)).foldr (· ++ ·) []

/-- `derive_phase_key` on already encoded labels -/
def phaseKey (C : Crypto) (key side phase : Bytes) : Bytes := C.hkdf key (purpose C side phase)

/-- `derive_phase_key(key, side, phase)`; `none` = `UnicodeEncodeError` -/
def phaseKey? (C : Crypto) (key : Bytes) (side phase : String) : Option Bytes :=
  match asciiEncode side, asciiEncode phase with
  | some sb, some pb => some (phaseKey C key sb pb)
  | _, _ => none

/-! ## Boss.got_message phase dispatch -/

inductive PhaseClass where
  | version | dilate (n : Nat) | num (n : Nat) | unknown
  deriving DecidableEq, Repr

def isDigits (cs : List Char) : Bool := !cs.isEmpty && cs.all Char.isDigit

/-- `$` also matches before one trailing newline (and `int()` strips it) -/
def stripNl (cs : List Char) : List Char :=
  if cs.getLast? = some '\n' then cs.dropLast else cs

def digitsVal (cs : List Char) : Nat := cs.foldl (fun a c => a * 10 + (c.toNat - 48)) 0

/-- `phase == "version"` / `^dilate-(\d+)$` / `^\d+$` / else; only reached with ASCII phases
    (`derive_phase_key` has encoded the phase before) -/
def classify (phase : String) : PhaseClass :=
  if phase = "version" then .version else
  let cs := phase.toList
  if "dilate-".toList.isPrefixOf cs && isDigits (stripNl (cs.drop 7)) then .dilate (digitsVal (stripNl (cs.drop 7)))
  else if isDigits (stripNl cs) then .num (digitsVal (stripNl cs))
  else .unknown

/-! ## state -/

inductive Err where
  | noTransition | assertion | unicodeEncode | decode | unmodelled
  deriving DecidableEq, Repr

def Err.name : Err → String
  | .noTransition => "NoTransition" | .assertion => "AssertionError" | .unicodeEncode => "UnicodeEncodeError"
  | .decode => "DecodeError" | .unmodelled => "UNMODELLED"

structure Frame where
  side : String
  phase : String
  body : Bytes
  deriving DecidableEq, Repr

inductive Verdict where
  | empty | happy | lonely | wrongPassword | error (e : Err)
  deriving DecidableEq, Repr

/-- everything the application (or the Dilator, or the log) is handed, in order -/
inductive AppEv where
  | gotCode
  | gotKey (k : Bytes)
  | gotVerifier (v : Bytes)
  | gotVersions (pt : Bytes)            -- `process_version(plaintext)`
  | received (n : Nat) (pt : Bytes)     -- `W.received(plaintext)` for phase number `n`
  | dilate (n : Nat) (pt : Bytes)       -- `D.received_dilate(plaintext)` for seqnum `n`
  | unknownPhase (phase : String)       -- `log.err(_UnknownPhaseError)`; nothing delivered
  | closed (v : Verdict)
  deriving DecidableEq, Repr

structure Cfg where
  side : String
  secret : Bytes
  versions : Bytes

/-- the part of the client the receive path only calls *into*: Mailbox (outbound half), Send,
    Terminator -/
structure Lo where
  mbox : Mailbox.State := Mailbox.init
  haveMailbox : Bool := false
  pending : List (String × Bytes) := []      -- `_pending_outbound` (insertion ordered)
  mood : Option String := none
  snd : Send.State := Send.init
  skey : Option Bytes := none
  sq : List (String × Bytes) := []
  term : Terminator.State := Terminator.init
  rcStopped : Bool := false
  nonce : Nat := 0
  deriving Repr

structure St where
  lo : Lo := {}
  processed : List String := []              -- Mailbox `_processed`
  ord : Order.State := Order.init
  oq : List Frame := []
  key : Key.State := Key.init
  stash : Option Bytes := none
  sk : SortedKey.State := SortedKey.init
  pw : Option Bytes := none                  -- the password given to SPAKE2 (`self._sp` exists)
  rcv : Receive.State := Receive.init
  rkey : Option Bytes := none
  boss : Boss.State := Boss.init
  nextTx : Nat := 0
  nextRx : Nat := 0
  rxPhases : List (Nat × Bytes) := []
  nextDil : Nat := 0
  rxDil : List (Nat × Bytes) := []
  result : Verdict := .empty
  app : List AppEv := []
  deriving Repr

abbrev R := St × Option Err
abbrev RLo := Lo × Option Err

/-- run the outputs of one transition in order; an exception skips the rest -/
def runOuts {σ ο : Type} (sem : ο → σ → σ × Option Err) : List ο → σ → σ × Option Err
  | [], s => (s, none)
  | o :: os, s =>
    match sem o s with
    | (s', none) => runOuts sem os s'
    | (s', some e) => (s', some e)

def liftLo (f : Lo → RLo) (s : St) : R :=
  match f s.lo with
  | (l, e) => ({ s with lo := l }, e)

/-! ## Terminator (only what Boss and Mailbox call), Mailbox outbound half, Send -/

def tOut (o : Terminator.Output) (l : Lo) : RLo :=
  match o with
  | .RC_stop | .ignore_mood_and_RC_stop => ({ l with rcStopped := true }, none)
  | _ => (l, none)

/-- `Terminator.mailbox_done()` -/
def tMailboxDone (l : Lo) : RLo :=
  match Terminator.table l.term .mailbox_done with
  | none => (l, some .noTransition)
  | some (st', outs) => runOuts tOut outs { l with term := st' }

def dictSet (d : List (String × Bytes)) (k : String) (v : Bytes) : List (String × Bytes) :=
  if d.any (·.1 == k) then d.map (fun p => if p.1 == k then (k, v) else p) else d ++ [(k, v)]

def dictPop (d : List (String × Bytes)) (k : String) : List (String × Bytes) := d.filter (·.1 != k)

inductive MArg where
  | none | msg (phase : String) (body : Bytes) | mood (m : String)

/-- Mailbox outputs that do not go up to Order -/
def mLowOut (a : MArg) (o : Mailbox.Output) (l : Lo) : RLo :=
  match o, a with
  | .record_mailbox, _ => ({ l with haveMailbox := true }, none)
  | .record_mailbox_and_RC_tx_open_and_drain, _ => ({ l with haveMailbox := true }, none)
  | .RC_tx_open, _ => if l.haveMailbox then (l, none) else (l, some .assertion)
  | .drain, _ => (l, none)
  | .queue, .msg p b => ({ l with pending := dictSet l.pending p b }, none)
  | .RC_tx_add, .msg _ _ => (l, none)
  | .dequeue, .msg p _ => ({ l with pending := dictPop l.pending p }, none)
  | .RC_tx_close, _ => if l.mood.isSome then (l, none) else (l, some .assertion)
  | .record_mood, .mood m => ({ l with mood := some m }, none)
  | .record_mood_and_RC_tx_close, .mood m => ({ l with mood := some m }, none)
  | .ignore_mood_and_T_mailbox_done, _ => tMailboxDone l
  | .T_mailbox_done, _ => tMailboxDone l
  | _, _ => (l, some .unmodelled)

/-- Mailbox inputs `add_message`, `close`, `connected`, `lost`, `got_mailbox`, `rx_closed` -/
def mLow (i : Mailbox.Input) (a : MArg) (l : Lo) : RLo :=
  match Mailbox.table l.mbox i with
  | none => (l, some .noTransition)
  | some (st', outs) => runOuts (mLowOut a) outs { l with mbox := st' }

/-- `Terminator.close(mood)` -/
def tClose (mood : String) (l : Lo) : RLo :=
  match Terminator.table l.term .close with
  | none => (l, some .noTransition)
  | some (st', outs) =>
    runOuts (fun o l => match o with
      | .close_mailbox => mLow .close (.mood mood) l
      | .close_nameplate => (l, none)               -- Nameplate is not part of this model
      | o => tOut o l) outs { l with term := st' }

/-- `Send._encrypt_and_send(phase, plaintext)` -/
def encryptAndSend (C : Crypto) (cfg : Cfg) (phase : String) (pt : Bytes) (l : Lo) : RLo :=
  match l.skey with
  | none => (l, some .assertion)
  | some k =>
    match phaseKey? C k cfg.side phase with
    | none => (l, some .unicodeEncode)
    | some dk => mLow .add_message (.msg phase (C.boxSeal dk l.nonce pt)) { l with nonce := l.nonce + 1 }

def sendAll (C : Crypto) (cfg : Cfg) : List (String × Bytes) → Lo → RLo
  | [], l => (l, none)
  | (p, pt) :: r, l =>
    match encryptAndSend C cfg p pt l with
    | (l', none) => sendAll C cfg r l'
    | (l', some e) => (l', some e)

inductive SArg where
  | key (k : Bytes) | msg (phase : String) (pt : Bytes)

def sOut (C : Crypto) (cfg : Cfg) (a : SArg) (o : Send.Output) (l : Lo) : RLo :=
  match o, a with
  | .queue, .msg p pt => ({ l with sq := l.sq ++ [(p, pt)] }, none)
  | .record_key, .key k => ({ l with skey := some k }, none)
  | .drain, .key _ =>
    match sendAll C cfg l.sq l with
    | (l', none) => ({ l' with sq := [] }, none)
    | (l', some e) => (l', some e)
  | .deliver, .msg p pt => encryptAndSend C cfg p pt l
  | _, _ => (l, some .unmodelled)

def sInput (C : Crypto) (cfg : Cfg) (i : Send.Input) (a : SArg) (l : Lo) : RLo :=
  match Send.table l.snd i with
  | none => (l, some .noTransition)
  | some (st', outs) => runOuts (sOut C cfg a) outs { l with snd := st' }

/-! ## Boss -/

inductive BArg where
  | none | bytes (b : Bytes) | num (n : Nat) (b : Bytes) | err (e : Err)

def natDictSet (d : List (Nat × Bytes)) (k : Nat) (v : Bytes) : List (Nat × Bytes) :=
  if d.any (·.1 == k) then d.map (fun p => if p.1 == k then (k, v) else p) else d ++ [(k, v)]

/-- `while self._next_rx_phase in self._rx_phases: W.received(pop); next += 1` — every turn removes
    an entry, so `length` turns suffice (`Props.C02.recvLoop_done`) -/
def recvLoop : Nat → St → St
  | 0, s => s
  | fuel + 1, s =>
    match s.rxPhases.lookup s.nextRx with
    | none => s
    | some pt =>
      recvLoop fuel { s with app := s.app ++ [.received s.nextRx pt],
                             rxPhases := s.rxPhases.filter (·.1 != s.nextRx),
                             nextRx := s.nextRx + 1 }

def dilLoop : Nat → St → St
  | 0, s => s
  | fuel + 1, s =>
    match s.rxDil.lookup s.nextDil with
    | none => s
    | some pt =>
      dilLoop fuel { s with app := s.app ++ [.dilate s.nextDil pt],
                            rxDil := s.rxDil.filter (·.1 != s.nextDil),
                            nextDil := s.nextDil + 1 }

def bossOut (C : Crypto) (cfg : Cfg) (a : BArg) (o : Boss.Output) (s : St) : R :=
  match o, a with
  | .do_got_code, _ => ({ s with app := s.app ++ [.gotCode] }, none)
  | .process_version, .bytes pt =>
    if C.versionOk pt then ({ s with app := s.app ++ [.gotVersions pt] }, none) else (s, some .decode)
  | .send_status_confirmed_key, _ => (s, none)
  | .send_status_peer_key, _ => (s, none)
  | .send_status_closed, _ => (s, none)
  | .S_send, .bytes pt =>
    liftLo (sInput C cfg .send (.msg (toString s.nextTx) pt)) { s with nextTx := s.nextTx + 1 }
  | .close_scared, _ => liftLo (tClose "scary") { s with result := .wrongPassword }
  | .close_lonely, _ => liftLo (tClose "lonely") { s with result := .lonely }
  | .close_happy, _ => liftLo (tClose "happy") { s with result := .happy }
  | .W_got_key, .bytes k => ({ s with app := s.app ++ [.gotKey k] }, none)
  | .D_got_key, .bytes _ => (s, none)
  | .W_got_verifier, .bytes v => ({ s with app := s.app ++ [.gotVerifier v] }, none)
  | .W_received, .num n pt =>
    let s1 := { s with rxPhases := natDictSet s.rxPhases n pt }
    (recvLoop s1.rxPhases.length s1, none)
  | .D_received_dilate, .num n pt =>
    let s1 := { s with rxDil := natDictSet s.rxDil n pt }
    (dilLoop s1.rxDil.length s1, none)
  | .W_close_with_error, .err e => ({ s with result := .error e, app := s.app ++ [.closed (.error e)] }, none)
  | .W_closed, _ => ({ s with app := s.app ++ [.closed s.result] }, none)
  | _, _ => (s, some .unmodelled)

def bossInput (C : Crypto) (cfg : Cfg) (i : Boss.Input) (a : BArg) (s : St) : R :=
  match Boss.table s.boss i with
  | none => (s, some .noTransition)
  | some (st', outs) => runOuts (bossOut C cfg a) outs { s with boss := st' }

/-- `Boss.got_message(phase, plaintext)` -/
def bGotMessage (C : Crypto) (cfg : Cfg) (phase : String) (pt : Bytes) (s : St) : R :=
  match classify phase with
  | .version => bossInput C cfg .u_got_version (.bytes pt) s
  | .dilate n => bossInput C cfg .u_got_dilate (.num n pt) s
  | .num n => bossInput C cfg .u_got_phase (.num n pt) s
  | .unknown => ({ s with app := s.app ++ [.unknownPhase phase] }, none)

/-! ## Receive -/

inductive RArg where
  | key (k : Bytes) | good (phase : String) (pt : Bytes) | bad

def verifierPurpose : Bytes := utf8 "wormhole:verifier"

def rOut (C : Crypto) (cfg : Cfg) (a : RArg) (o : Receive.Output) (s : St) : R :=
  match o, a with
  | .record_key, .key k => ({ s with rkey := some k }, none)
  | .S_got_verified_key, .good _ _ =>
    match s.rkey with
    | none => (s, some .assertion)
    | some k => liftLo (sInput C cfg .got_verified_key (.key k)) s
  | .W_happy, .good _ _ => bossInput C cfg .happy .none s
  | .W_got_verifier, .good _ _ =>
    match s.rkey with
    | none => (s, some .unmodelled)
    | some k => bossInput C cfg .got_verifier (.bytes (C.hkdf k verifierPurpose)) s
  | .W_got_message, .good phase pt => bGotMessage C cfg phase pt s
  | .W_scared, .bad => bossInput C cfg .scared .none s
  | _, _ => (s, some .unmodelled)

def rInput (C : Crypto) (cfg : Cfg) (i : Receive.Input) (a : RArg) (s : St) : R :=
  match Receive.table s.rcv i with
  | none => (s, some .noTransition)
  | some (st', outs) => runOuts (rOut C cfg a) outs { s with rcv := st' }

/-- `Receive.got_message(side, phase, body)` -/
def rGotMessage (C : Crypto) (cfg : Cfg) (f : Frame) (s : St) : R :=
  match s.rkey with
  | none => rInput C cfg .got_message_bad .bad s     -- `if self._key is None: self.got_message_bad(); return`
  | some k =>
    match phaseKey? C k f.side f.phase with
    | none => (s, some .unicodeEncode)
    | some dk =>
      match C.boxOpen dk f.body with
      | none => rInput C cfg .got_message_bad .bad s
      | some pt => rInput C cfg .got_message_good (.good f.phase pt) s

/-! ## _SortedKey, Key -/

inductive KArg where
  | code (pw : Bytes) | elem (e : Bytes) | none

def skOut (C : Crypto) (cfg : Cfg) (a : KArg) (o : SortedKey.Output) (s : St) : R :=
  match o, a with
  | .build_pake, .code pw =>
    liftLo (mLow .add_message (.msg "pake" (C.pakeEncode (C.pakeStart cfg.secret pw)))) { s with pw := some pw }
  | .scared, _ => bossInput C cfg .scared .none s
  | .compute_key, .elem e =>
    match s.pw with
    | none => (s, some .unmodelled)
    | some pw =>
      match C.pakeFinish cfg.secret pw e with
      | .refused => bossInput C cfg .scared .none s    -- `except (AssertionError, ValueError, SPAKEError, NotOnCurve): B.scared(); return`
      | .key k =>
        match bossInput C cfg .got_key (.bytes k) s with
        | (s1, some e) => (s1, some e)
        | (s1, none) =>
          match phaseKey? C k cfg.side "version" with
          | none => (s1, some .unicodeEncode)
          | some dk =>
            match liftLo (mLow .add_message (.msg "version" (C.boxSeal dk s1.lo.nonce cfg.versions)))
                    { s1 with lo := { s1.lo with nonce := s1.lo.nonce + 1 } } with
            | (s2, some e) => (s2, some e)
            | (s2, none) => rInput C cfg .got_key (.key k) s2
  | _, _ => (s, some .unmodelled)

def skInput (C : Crypto) (cfg : Cfg) (i : SortedKey.Input) (a : KArg) (s : St) : R :=
  match SortedKey.table s.sk i with
  | none => (s, some .noTransition)
  | some (st', outs) => runOuts (skOut C cfg a) outs { s with sk := st' }

/-- `_SortedKey.got_pake(body)` -/
def skGotPake (C : Crypto) (cfg : Cfg) (body : Bytes) (s : St) : R :=
  match C.pakeDecode body with
  | .raise => skInput C cfg .got_pake_bad .none s    -- `except (AssertionError, KeyError, TypeError, ValueError)`
  | .missing => skInput C cfg .got_pake_bad .none s  -- `payload["pake_v1"]` raises KeyError
  | .elem e => skInput C cfg .got_pake_good (.elem e) s

inductive KeyArg where
  | code (pw : Bytes) | body (b : Bytes)

def kOut (C : Crypto) (cfg : Cfg) (a : KeyArg) (o : Key.Output) (s : St) : R :=
  match o, a with
  | .stash_pake, .body b => ({ s with stash := some b }, none)
  | .deliver_code, .code pw => skInput C cfg .got_code (.code pw) s
  | .deliver_pake, .body b => skGotPake C cfg b s
  | .deliver_code_and_stashed_pake, .code pw =>
    match skInput C cfg .got_code (.code pw) s with
    | (s1, some e) => (s1, some e)
    | (s1, none) =>
      match s1.stash with
      | none => (s1, some .unmodelled)
      | some b => skGotPake C cfg b s1
  | _, _ => (s, some .unmodelled)

def kInput (C : Crypto) (cfg : Cfg) (i : Key.Input) (a : KeyArg) (s : St) : R :=
  match Key.table s.key i with
  | none => (s, some .noTransition)
  | some (st', outs) => runOuts (kOut C cfg a) outs { s with key := st' }

/-! ## Order -/

/-- the `for (side, phase, body) in self._queue: self._deliver(...)` loop -/
def deliverAll (C : Crypto) (cfg : Cfg) : List Frame → St → R
  | [], s => (s, none)
  | f :: r, s =>
    match rGotMessage C cfg f s with
    | (s', none) => deliverAll C cfg r s'
    | (s', some e) => (s', some e)

def oOut (C : Crypto) (cfg : Cfg) (f : Frame) (o : Order.Output) (s : St) : R :=
  match o with
  | .queue => ({ s with oq := s.oq ++ [f] }, none)
  | .notify_key => kInput C cfg .got_pake (.body f.body) s
  | .drain =>
    match deliverAll C cfg s.oq s with
    | (s', none) => ({ s' with oq := [] }, none)
    | (s', some e) => (s', some e)                   -- the queue is left as it is
  | .deliver => rGotMessage C cfg f s

/-- `Order.got_message(side, phase, body)` -/
def oGotMessage (C : Crypto) (cfg : Cfg) (f : Frame) (s : St) : R :=
  let i : Order.Input := if f.phase = "pake" then .got_pake else .got_non_pake
  match Order.table s.ord i with
  | none => (s, some .noTransition)
  | some (st', outs) => runOuts (oOut C cfg f) outs { s with ord := st' }

/-! ## Mailbox.rx_message, RendezvousConnector.ws_message -/

def mRxOut (C : Crypto) (cfg : Cfg) (f : Frame) (o : Mailbox.Output) (s : St) : R :=
  match o with
  | .N_release_and_accept =>
    -- `self._N.release()`: Nameplate is not part of this model
    if s.processed.contains f.phase then (s, none)
    else oGotMessage C cfg f { s with processed := s.processed ++ [f.phase] }
  | o => liftLo (mLowOut (.msg f.phase f.body) o) s

/-- `Mailbox.rx_message(side, phase, body)` -/
def mRxMessage (C : Crypto) (cfg : Cfg) (f : Frame) (s : St) : R :=
  let i : Mailbox.Input := if f.side = cfg.side then .rx_message_ours else .rx_message_theirs
  match Mailbox.table s.lo.mbox i with
  | none => (s, some .noTransition)
  | some (st', outs) => runOuts (mRxOut C cfg f) outs { s with lo := { s.lo with mbox := st' } }

/-- `ws_message` for a `message` frame: `try: M.rx_message(...) except Exception as e: B.error(e); raise` -/
def wsMessage (C : Crypto) (cfg : Cfg) (f : Frame) (s : St) : R :=
  match mRxMessage C cfg f s with
  | (s1, none) => (s1, none)
  | (s1, some e) =>
    match bossInput C cfg .k_error (.err e) s1 with
    | (s2, none) => (s2, some e)
    | (s2, some e2) => (s2, some e2)

/-! ## events of one client -/

inductive Ev where
  | connected                 -- `RC.ws_open` → `M.connected()`
  | lost                      -- `RC.ws_close` → `M.lost()` (the connection dropped; `_processed` lives on)
  | claimed                   -- `N.rx_claimed` → `M.got_mailbox(mailbox)`
  | code (pw : Bytes)         -- Code machine: `B.got_code(code)` then `K.got_code(code)`
  | send (pt : Bytes)         -- application `send_message`
  | close                     -- application `close`
  | rx (f : Frame)            -- a `message` frame from the server
  | mclosed                   -- a `closed` frame: `M.rx_closed()`
  | tclosed                   -- Terminator is done: `B.closed()`
  deriving Repr

/-- one event; the `Option Err` is the exception that escapes to the caller -/
def step (C : Crypto) (cfg : Cfg) (s : St) : Ev → R
  | .connected => liftLo (mLow .connected .none) s
  | .lost => liftLo (mLow .lost .none) s
  | .claimed => liftLo (mLow .got_mailbox .none) s
  | .code pw =>
    match bossInput C cfg .got_code .none s with
    | (s1, some e) => (s1, some e)
    | (s1, none) => kInput C cfg .got_code (.code pw) s1
  | .send pt => bossInput C cfg .send (.bytes pt) s
  | .close => bossInput C cfg .close .none s
  | .rx f => wsMessage C cfg f s
  | .mclosed => liftLo (mLow .rx_closed .none) s
  | .tclosed => bossInput C cfg .closed .none s

def run (C : Crypto) (cfg : Cfg) (s : St) (evs : List Ev) : St :=
  evs.foldl (fun s e => (step C cfg s e).1) s

/-- the `message` frames among the events -/
def frames : List Ev → List Frame
  | [] => []
  | .rx f :: r => f :: frames r
  | _ :: r => frames r

/-! ## call skeletons this model was written against (checked against `Gen.Skel` in Props) -/

def expectedSkel : List (String × List (String × String)) :=
  [("Mailbox.rx_message", [("if", "self.rx_message_ours"), ("else", "self.rx_message_theirs")]),
   ("Mailbox.N_release_and_accept", [("-", "_N.release"), ("if", "_O.got_message")]),
   ("Order.got_message", [("if", "self.got_pake"), ("else", "self.got_non_pake")]),
   ("Order.notify_key", [("-", "_K.got_pake")]),
   ("Order.drain", [("for", "self._deliver")]),
   ("Order.deliver", [("-", "self._deliver")]),
   ("Order._deliver", [("-", "_R.got_message")]),
   ("Receive.got_message", [("if", "self.got_message_bad"), ("-", "derive_phase_key"), ("try", "decrypt_data"), ("except", "self.got_message_bad"), ("-", "self.got_message_good")]),
   ("Receive.W_got_message", [("-", "_B.got_message")]),
   ("Receive.W_scared", [("-", "_B.scared")]),
   ("Receive.W_happy", [("-", "_B.happy")]),
   ("_SortedKey.got_pake", [("except", "self.got_pake_bad"), ("-", "self.got_pake_good")]),
   ("_SortedKey.compute_key", [("except", "_B.scared"), ("-", "_B.got_key"), ("-", "derive_phase_key"), ("-", "encrypt_data"), ("-", "_M.add_message"), ("-", "_R.got_key")]),
   ("_SortedKey.scared", [("-", "_B.scared")]),
   ("Boss.got_message", [("if", "self._got_version"), ("else/if", "d_mo.group"), ("else/if", "self._got_dilate"), ("else/else/if", "self._got_phase"), ("else/else/else", "_UnknownPhaseError")]),
   ("Boss.W_received", [("while", "_W.received")]),
   ("Boss.D_received_dilate", [("while", "_D.received_dilate")]),
   ("Boss.process_version", [("-", "_D.got_wormhole_versions"), ("-", "_W.got_versions")]),
   ("Boss.close_scared", [("-", "WrongPasswordError"), ("-", "_T.close")])]

/-! ## the toy crypto instance (driver + non-vacuity; `Ideal` proved in Proofs/C02) -/

/-- injective `List Nat → Nat`:  `[] ↦ 0`, `x :: xs ↦ 2^x · (2·enc xs + 1)` -/
def encNat : List Nat → Nat
  | [] => 0
  | x :: xs => 2 ^ x * (2 * encNat xs + 1)

def lexLe : List Nat → List Nat → Bool
  | [], _ => true
  | _ :: _, [] => false
  | a :: as, b :: bs => if a < b then true else if b < a then false else lexLe as bs

def toyOpen (k c : Bytes) : Option Bytes :=
  match c with
  | 1 :: _ :: kl :: rest => if kl = k.length ∧ rest.take kl = k then some (rest.drop kl) else none
  | _ => none

def toyPakeStart (s pw : Bytes) : Bytes := 2 :: s.length :: (s ++ pw)

def toy : Crypto where
  sha256 b := [encNat b]
  hkdf k i := k.length :: (k ++ i)
  boxSeal k n p := 1 :: n :: k.length :: (k ++ p)
  boxOpen := toyOpen
  pakeStart := toyPakeStart
  pakeFinish s pw m :=
    let own := toyPakeStart s pw
    if m = own then .refused else
    match m with
    | 2 :: _ => .key (if lexLe own m then 3 :: own.length :: (own ++ m) else 3 :: m.length :: (m ++ own))
    | _ => .refused
  pakeEncode e := 5 :: e
  pakeDecode b := match b with
    | 5 :: e => .elem e
    | [6] => .missing
    | _ => .raise
  versionOk b := b.head? == some 123 && b.getLast? == some 125

/-! ## driver (line protocol)

Two clients `0` and `1` (the harness' two real clients).  Sides, phases and passwords travel as hex
of their UTF-8; bodies as abstract descriptors, resolved with the model's own keys:

```
new <i> <sidehex> <versionshex>         -> ok
<i> connected | lost | claimed | close | mclosed | tclosed
<i> code <pwhex> | send <pthex>
<i> rx <sidehex> <phasehex> S <j> <sealsidehex> <sealphasehex> <pthex>   body = sealing by the holder of client j's key
<i> rx <sidehex> <phasehex> X <n> <sealsidehex> <sealphasehex> <pthex>   body = sealing under a foreign key n
<i> rx <sidehex> <phasehex> J <hex>                                        body = not a sealing under any key
<i> rx <sidehex> <phasehex> P peer <j> | P stranger <n> | P bad | P missing | P raise
```
Output: `<exception|-> M=… O=… K=… SK=… R=… B=… proc=… pend=… oq=n next=n/n | <new app events>`.
-/

structure DrvSt where
  cfgs : List Cfg
  sts : List St

def drvInit : DrvSt :=
  { cfgs := [{ side := "", secret := [0], versions := [] }, { side := "", secret := [1], versions := [] }],
    sts := [{}, {}] }

def showVerdict : Verdict → String
  | .empty => "empty" | .happy => "happy" | .lonely => "LonelyError" | .wrongPassword => "WrongPasswordError"
  | .error e => "error:" ++ e.name

def showEv : AppEv → String
  | .gotCode => "code"
  | .gotKey _ => "key"
  | .gotVerifier _ => "verifier"
  | .gotVersions pt => "versions:" ++ toHex pt
  | .received n pt => s!"message:{n}:{toHex pt}"
  | .dilate n pt => s!"dilate:{n}:{toHex pt}"
  | .unknownPhase p => "unknown-phase:" ++ hexOfStr p
  | .closed v => "closed:" ++ showVerdict v

def isDil : AppEv → Bool | .dilate _ _ => true | _ => false
def isUnk : AppEv → Bool | .unknownPhase _ => true | _ => false

/-- delegate events first, then what went to the Dilator, then the log (the harness reads them from
    three different places, so their interleaving is not observable) -/
def showSt (s : St) (e : Option Err) (newEvs : List AppEv) : String :=
  let ex := match e with | none => "-" | some e => e.name
  let proc := ((s.processed.map hexOfStr).toArray.qsort (· < ·)).toList
  let evs := newEvs.filter (fun x => !isDil x && !isUnk x) ++ newEvs.filter isDil ++ newEvs.filter isUnk
  s!"{ex} M={Mailbox.State.name s.lo.mbox} O={Order.State.name s.ord} K={Key.State.name s.key} SK={SortedKey.State.name s.sk} R={Receive.State.name s.rcv} B={Boss.State.name s.boss} proc={",".intercalate proc} pend={",".intercalate (s.lo.pending.map (fun p => hexOfStr p.1))} oq={s.oq.length} next={s.nextRx}/{s.nextDil} | {" ".intercalate (evs.map showEv)}"

def foreignKey (n : Nat) : Bytes := [9, n]

def strangerElem (n : Nat) : Bytes := [2, 0, 77, n]

def readBody (d : DrvSt) (i : Nat) : List String → Option Bytes
  | ["S", j, ss, sp, pt] => do
    let j ← j.toNat?
    let sj ← d.sts[j]?
    let k ← sj.rkey
    let ss ← strOfHex? ss
    let sp ← strOfHex? sp
    let pt ← fromHex? pt
    let dk ← phaseKey? toy k ss sp
    pure (toy.boxSeal dk 0 pt)
  | ["X", n, ss, sp, pt] => do
    let n ← n.toNat?
    let ss ← strOfHex? ss
    let sp ← strOfHex? sp
    let pt ← fromHex? pt
    let dk ← phaseKey? toy (foreignKey n) ss sp
    pure (toy.boxSeal dk 0 pt)
  | ["J", h] => do
    let b ← fromHex? h
    pure (0 :: b)
  | ["P", "peer", j] => do
    let j ← j.toNat?
    let cj ← d.cfgs[j]?
    let sj ← d.sts[j]?
    let pw ← sj.pw
    pure (toy.pakeEncode (toy.pakeStart cj.secret pw))
  | ["P", "stranger", n] => do
    let n ← n.toNat?
    pure (toy.pakeEncode (strangerElem n))
  | ["P", "bad"] => some (toy.pakeEncode [4, i])
  | ["P", "missing"] => some [6]
  | ["P", "raise"] => some [7]
  | _ => none

def readEv (d : DrvSt) (i : Nat) : List String → Option Ev
  | ["connected"] => some .connected
  | ["lost"] => some .lost
  | ["claimed"] => some .claimed
  | ["close"] => some .close
  | ["mclosed"] => some .mclosed
  | ["tclosed"] => some .tclosed
  | ["code", pw] => (fromHex? pw).map .code
  | ["send", pt] => (fromHex? pt).map .send
  | "rx" :: side :: phase :: desc => do
    let side ← strOfHex? side
    let phase ← strOfHex? phase
    let body ← readBody d i desc
    pure (.rx { side := side, phase := phase, body := body })
  | _ => none

/-- a `message` frame that `RendezvousConnector._response_handle_message` ignores (side / phase not ASCII: the frame
    cannot come from our peer) never becomes the event `rx` = `Mailbox.rx_message(…)`; validated on the generated body by
    `WV.Props.PyIRClient.rc_response_handle_message_malformed` -/
def connectorDrops : Ev → Bool
  | .rx f => (asciiEncode f.side).isNone || (asciiEncode f.phase).isNone
  | _ => false

def drvStep (d : DrvSt) (line : String) : DrvSt × String :=
  match tokens line with
  | ["reset"] => (drvInit, "ok")
  | ["new", i, side, vers] =>
    match i.toNat?, strOfHex? side, fromHex? vers with
    | some i, some side, some v =>
      if i < d.cfgs.length then
        ({ cfgs := d.cfgs.set i { side := side, secret := [i], versions := v }, sts := d.sts.set i {} }, "ok")
      else (d, "bad-op")
    | _, _, _ => (d, "bad-op")
  | i :: rest =>
    match i.toNat? with
    | none => (d, "bad-op")
    | some i =>
      match d.cfgs[i]?, d.sts[i]?, readEv d i rest with
      | some cfg, some s, some ev =>
        if connectorDrops ev then (d, showSt s none []) else
        let (s', e) := step toy cfg s ev
        ({ d with sts := d.sts.set i s' }, showSt s' e (s'.app.drop s.app.length))
      | _, _, _ => (d, "bad-op")
  | _ => (d, "bad-op")

def driver (lines : List String) : List String := runLines drvStep drvInit lines

end WV.C02
