import WV.Proofs.PyIR_Client

/-!
Translation validation against the control model (continued): Input, the Mailbox / Order / Send / Receive outputs as
the control model sees them, and the translatable RendezvousConnector glue.  Conventions as in `WV.Props.PyIR_Client`.
-/
set_option linter.unusedSimpArgs false
set_option linter.unusedVariables false

namespace WV.Props.PyIRClient
open WV WV.Gen WV.PyIR WV.Client WV.Gen.PyIR WV.Proofs.PyIRC03 WV.Proofs.PyIRClient

abbrev envG : Env := envU noBad noRaise noRets

/-! ## Input -/

set_option hygiene false in
macro "openI" R:ident : tactic => `(tactic| obtain ⟨⟨vC, hC⟩, ⟨vL, hL⟩, ⟨vTm, hTm⟩⟩ := $R)

/-- `do_start()`: `L.refresh()`; the returned `Helper(self)` is the model's `helper := true` (not an attribute) -/
theorem input_do_start (fuel : Nat) (h : Store) (s : RunSt) (R : RelI h s.ctl) (a : Arg) :
    let o := PyIR.exec (fuel + 1) envG tbl_Input "do_start" [] h
    AgreeStep RelI o (Client.exec s (.oI .do_start) a) ∧ o.ret = .obj "Helper" [.obj "self" []] := by
  openI R
  ctl_eval [tbl_Input, m_Input_do_start, hL, hTm, Lister.Input.name]
  rel_fields

theorem input_do_refresh (fuel : Nat) (h : Store) (s : RunSt) (R : RelI h s.ctl) (a : Arg) :
    AgreeStep RelI (PyIR.exec (fuel + 1) envG tbl_Input "do_refresh" [] h) (Client.exec s (.oI .do_refresh) a) := by
  have R' := R
  openI R
  ctl_eval [tbl_Input, m_Input_do_refresh, hL, Lister.Input.name]
  exact R'

theorem input_record_nameplates (fuel : Nat) (h : Store) (s : RunSt) (R : RelI h s.ctl) (a : Arg) (nps : Val) :
    AgreeStep RelI (PyIR.exec (fuel + 1) envG tbl_Input "record_nameplates" [nps] h)
      (Client.exec s (.oI .record_nameplates) a) := by
  openI R
  ctl_eval [tbl_Input, m_Input_record_nameplates]
  rel_fields

theorem input_record_all_nameplates (fuel : Nat) (h : Store) (s : RunSt) (R : RelI h s.ctl) (a : Arg) (np : Val) :
    AgreeStep RelI (PyIR.exec (fuel + 1) envG tbl_Input "record_all_nameplates" [np] h)
      (Client.exec s (.oI .record_all_nameplates) a) := by
  openI R
  ctl_eval [tbl_Input, m_Input_record_all_nameplates, hC, Code.Input.name]
  rel_fields

/-- `do_words(words)`: the code is `self._nameplate + "-" + words`; `_nameplate` is the string `record_all_nameplates`
    stored and `_start_timing` the object `do_start` stored (both precede `choose_words` in the table) -/
theorem input_do_words (fuel : Nat) (h : Store) (s : RunSt) (R : RelI h s.ctl) (a : Arg) (np words : String) (tm : Val)
    (hnp : h.get "_nameplate" = some (.str np)) (htm : h.get "_start_timing" = some tm) :
    let o := PyIR.exec (fuel + 1) envG tbl_Input "do_words" [.str words] h
    AgreeStep RelI o (Client.exec s (.oI .do_words) a) ∧
      o.calls.map (·.args) = [[], [.str (np ++ "-" ++ words)]] := by
  have R' := R
  openI R
  ctl_eval [tbl_Input, m_Input_do_words, hC, hnp, htm, Code.Input.name]
  exact R'

theorem input_no_word_completions (fuel : Nat) (h : Store) (s : RunSt) (R : RelI h s.ctl) (a : Arg) (p : Val) :
    AgreeStep RelI (PyIR.exec (fuel + 1) envG tbl_Input "no_word_completions" [p] h)
      (Client.exec s (.oI .no_word_completions) a) := by
  have R' := R
  ctl_eval [tbl_Input, m_Input_no_word_completions]
  exact R'

/-- the seven raising outputs: exactly the documented exception, nothing else -/
theorem input_raises (fuel : Nat) (h : Store) (s : RunSt) (R : RelI h s.ctl) (a : Arg) (v : Val) :
    AgreeStep RelI (PyIR.exec (fuel + 1) envG tbl_Input "raise_must_choose_nameplate1" [v] h)
      (Client.exec s (.oI .raise_must_choose_nameplate1) a) ∧
    AgreeStep RelI (PyIR.exec (fuel + 1) envG tbl_Input "raise_must_choose_nameplate2" [v] h)
      (Client.exec s (.oI .raise_must_choose_nameplate2) a) ∧
    AgreeStep RelI (PyIR.exec (fuel + 1) envG tbl_Input "raise_already_chose_nameplate1" [] h)
      (Client.exec s (.oI .raise_already_chose_nameplate1) a) ∧
    AgreeStep RelI (PyIR.exec (fuel + 1) envG tbl_Input "raise_already_chose_nameplate2" [v] h)
      (Client.exec s (.oI .raise_already_chose_nameplate2) a) ∧
    AgreeStep RelI (PyIR.exec (fuel + 1) envG tbl_Input "raise_already_chose_nameplate3" [v] h)
      (Client.exec s (.oI .raise_already_chose_nameplate3) a) ∧
    AgreeStep RelI (PyIR.exec (fuel + 1) envG tbl_Input "raise_already_chose_words1" [v] h)
      (Client.exec s (.oI .raise_already_chose_words1) a) ∧
    AgreeStep RelI (PyIR.exec (fuel + 1) envG tbl_Input "raise_already_chose_words2" [v] h)
      (Client.exec s (.oI .raise_already_chose_words2) a) := by
  have R' := R
  refine ⟨?_, ?_, ?_, ?_, ?_, ?_, ?_⟩ <;>
  · ctl_eval [tbl_Input, m_Input_raise_must_choose_nameplate1, m_Input_raise_must_choose_nameplate2,
      m_Input_raise_already_chose_nameplate1, m_Input_raise_already_chose_nameplate2,
      m_Input_raise_already_chose_nameplate3, m_Input_raise_already_chose_words1, m_Input_raise_already_chose_words2]
    exact R'

/-! ## Mailbox, as the control model sees it -/

set_option hygiene false in
macro "openMc" R:ident : tactic =>
  `(tactic| obtain ⟨⟨mbv, hmb, hmbc⟩, hmood, ⟨vN, hN⟩, ⟨vRC, hRC⟩, ⟨vO, hO⟩, ⟨vT, hT⟩⟩ := $R)

theorem mailboxC_record_mailbox (fuel : Nat) (h : Store) (s : RunSt) (R : RelMc h s.ctl) (a : Arg) (mb : String)
    (hne : mb ≠ "") :
    AgreeStep RelMc (PyIR.exec (fuel + 1) envG tbl_Mailbox "record_mailbox" [.str mb] h)
      (Client.exec s (.oM .record_mailbox) a) := by
  openMc R
  ctl_eval [tbl_Mailbox, m_Mailbox_record_mailbox]
  exact ⟨⟨_, get_set_same _ _ _, Or.inr ⟨mb, rfl, hne, rfl⟩⟩, by simp [get_set, hmood], ⟨vN, by simp [get_set, hN]⟩,
    ⟨vRC, by simp [get_set, hRC]⟩, ⟨vO, by simp [get_set, hO]⟩, ⟨vT, by simp [get_set, hT]⟩⟩

theorem mailboxC_RC_tx_open (fuel : Nat) (h : Store) (s : RunSt) (R : RelMc h s.ctl) (a : Arg) :
    AgreeStep RelMc (PyIR.exec (fuel + 1) envG tbl_Mailbox "RC_tx_open" [] h) (Client.exec s (.oM .RC_tx_open) a) := by
  have R' := R
  openMc R
  rcases hmbc with ⟨rfl, hk⟩ | ⟨mb, rfl, hne, hk⟩
  · ctl_eval [tbl_Mailbox, m_Mailbox_RC_tx_open, hRC, hmb, hk]
    exact R'
  · ctl_eval [tbl_Mailbox, m_Mailbox_RC_tx_open, hRC, hmb, hk, hne]
    exact R'

/-- `record_mood(mood)`; the argument is one of the five mood strings (`Terminator.close_mailbox` hands on what the
    Boss's `close_*` outputs passed: `boss_close_*`, `terminator_close_mailbox`) -/
theorem mailboxC_record_mood (fuel : Nat) (h : Store) (s : RunSt) (R : RelMc h s.ctl) (a : Arg) :
    AgreeStep RelMc (PyIR.exec (fuel + 1) envG tbl_Mailbox "record_mood" [.str (moodStr a.mood)] h)
      (Client.exec s (.oM .record_mood) a) := by
  openMc R
  ctl_eval [tbl_Mailbox, m_Mailbox_record_mood]
  exact ⟨⟨mbv, by simp [get_set, hmb], hmbc⟩, by simp [get_set], ⟨vN, by simp [get_set, hN]⟩,
    ⟨vRC, by simp [get_set, hRC]⟩, ⟨vO, by simp [get_set, hO]⟩, ⟨vT, by simp [get_set, hT]⟩⟩

theorem mailboxC_record_mood_and_RC_tx_close (fuel : Nat) (h : Store) (s : RunSt) (R : RelMc h s.ctl) (a : Arg) :
    AgreeStep RelMc (PyIR.exec (fuel + 2) envG tbl_Mailbox "record_mood_and_RC_tx_close" [.str (moodStr a.mood)] h)
      (Client.exec s (.oM .record_mood_and_RC_tx_close) a) := by
  openMc R
  ctl_eval [tbl_Mailbox, m_Mailbox_record_mood_and_RC_tx_close, m_Mailbox__RC_tx_close, hRC, hmb]
  exact ⟨⟨mbv, by simp [get_set, hmb], hmbc⟩, by simp [get_set], ⟨vN, by simp [get_set, hN]⟩,
    ⟨vRC, by simp [get_set, hRC]⟩, ⟨vO, by simp [get_set, hO]⟩, ⟨vT, by simp [get_set, hT]⟩⟩

/-- `RC_tx_close()`: the recorded mood goes out; never recorded → AttributeError, as in the model -/
theorem mailboxC_RC_tx_close (fuel : Nat) (h : Store) (s : RunSt) (R : RelMc h s.ctl) (a : Arg) :
    AgreeStep RelMc (PyIR.exec (fuel + 2) envG tbl_Mailbox "RC_tx_close" [] h) (Client.exec s (.oM .RC_tx_close) a) := by
  have R' := R
  openMc R
  cases hm : s.ctl.mood with
  | none =>
    rw [hm] at hmood
    ctl_eval [tbl_Mailbox, m_Mailbox_RC_tx_close, hmood, hm]
    exact R'
  | some md =>
    rw [hm] at hmood
    have := moodStr_ne md
    ctl_eval [tbl_Mailbox, m_Mailbox_RC_tx_close, m_Mailbox__RC_tx_close, hmood, hm, hRC, hmb, this]
    exact R'

/-- `RC_tx_add(phase, body)`: the phase class of what goes out is the one that came in -/
theorem mailboxC_RC_tx_add (fuel : Nat) (h : Store) (s : RunSt) (R : RelMc h s.ctl) (a : Arg) (p : String) (b : Bytes)
    (hp : phaseC p = a.ph) :
    AgreeStep RelMc (PyIR.exec (fuel + 1) envG tbl_Mailbox "RC_tx_add" [.str p, .bytes b] h)
      (Client.exec s (.oM .RC_tx_add) a) := by
  have R' := R
  openMc R
  ctl_eval [tbl_Mailbox, m_Mailbox_RC_tx_add, hRC, hp]
  exact R'

theorem mailboxC_T_mailbox_done (fuel : Nat) (h : Store) (s : RunSt) (R : RelMc h s.ctl) (a : Arg) (md : Val) :
    AgreeStep RelMc (PyIR.exec (fuel + 1) envG tbl_Mailbox "T_mailbox_done" [] h) (Client.exec s (.oM .T_mailbox_done) a) ∧
    AgreeStep RelMc (PyIR.exec (fuel + 1) envG tbl_Mailbox "ignore_mood_and_T_mailbox_done" [md] h)
      (Client.exec s (.oM .ignore_mood_and_T_mailbox_done) a) := by
  have R' := R
  openMc R
  constructor <;>
  · ctl_eval [tbl_Mailbox, m_Mailbox_T_mailbox_done, m_Mailbox_ignore_mood_and_T_mailbox_done, hT, Terminator.Input.name]
    exact R'

/-! ## Send / Receive / Order, as the control model sees them -/

theorem sendC_record_key (fuel : Nat) (h : Store) (s : RunSt) (R : RelSc h s.ctl) (a : Arg) (k : Val) (hk : k.truthy = true) :
    AgreeStep RelSc (PyIR.exec (fuel + 1) envG tbl_Send "record_key" [k] h) (Client.exec s (.oS .record_key) a) := by
  obtain ⟨hY, hN, ⟨vSd, hSd⟩, ⟨vM, hM⟩⟩ := R
  ctl_eval [tbl_Send, m_Send_record_key]
  exact ⟨fun _ => ⟨k, get_set_same _ _ _, hk⟩, by simp, ⟨vSd, by simp [get_set, hSd]⟩, ⟨vM, by simp [get_set, hM]⟩⟩

/-- `deliver(phase, plaintext)` with a key: one `M.add_message` under the same phase (numeric: `Boss.S_send` formats
    it with `"%d"`) -/
theorem sendC_deliver (fuel : Nat) (h : Store) (s : RunSt) (R : RelSc h s.ctl) (a : Arg) (p : String) (m : Bytes)
    (hk : s.ctl.sKey = true) (hp : phaseC p = .num) :
    AgreeStep RelSc (PyIR.exec (fuel + 2) envG tbl_Send "deliver" [.str p, .bytes m] h) (Client.exec s (.oS .deliver) a) := by
  have R' := R
  obtain ⟨hY, hN, ⟨vSd, hSd⟩, ⟨vM, hM⟩⟩ := R
  obtain ⟨kv, hkv, hkt⟩ := hY hk
  ctl_eval [tbl_Send, m_Send_deliver, m_Send__encrypt_and_send, hkv, hkt, hSd, hM, hk, hp, Mailbox.Input.name]
  exact R'

/-- FINDING (unreachable with today's table): without a key the control model fails with `AssertionError`, the code with
    `AttributeError` (`Send` has no `_key` attribute before `record_key`) -/
theorem sendC_deliver_without_key (fuel : Nat) (h : Store) (s : RunSt) (R : RelSc h s.ctl) (a : Arg) (p : String) (m : Bytes)
    (hk : s.ctl.sKey = false) :
    (PyIR.exec (fuel + 2) envG tbl_Send "deliver" [.str p, .bytes m] h).exc = some "AttributeError" ∧
      Client.exec s (.oS .deliver) a = .fail s (.assertion "self._key") := by
  obtain ⟨hY, hN, ⟨vSd, hSd⟩, ⟨vM, hM⟩⟩ := R
  have := hN hk
  ctl_eval [tbl_Send, m_Send_deliver, m_Send__encrypt_and_send, this, hk]

set_option hygiene false in
macro "openRc" R:ident : tactic => `(tactic| obtain ⟨⟨kv, hkv, hkc⟩, ⟨vB, hB⟩, ⟨vS, hS⟩⟩ := $R)

theorem receiveC_record_key (fuel : Nat) (h : Store) (s : RunSt) (R : RelRc h s.ctl) (a : Arg) (kb : Bytes) (hkb : kb ≠ []) :
    AgreeStep RelRc (PyIR.exec (fuel + 1) envG tbl_Receive "record_key" [.bytes kb] h) (Client.exec s (.oR .record_key) a) := by
  openRc R
  ctl_eval [tbl_Receive, m_Receive_record_key]
  exact ⟨⟨_, get_set_same _ _ _, Or.inr ⟨kb, rfl, hkb, rfl⟩⟩, ⟨vB, by simp [get_set, hB]⟩, ⟨vS, by simp [get_set, hS]⟩⟩

theorem receiveC_S_got_verified_key (fuel : Nat) (h : Store) (s : RunSt) (R : RelRc h s.ctl) (a : Arg) (p m : Val) :
    AgreeStep RelRc (PyIR.exec (fuel + 1) envG tbl_Receive "S_got_verified_key" [p, m] h)
      (Client.exec s (.oR .S_got_verified_key) a) := by
  have R' := R
  openRc R
  rcases hkc with ⟨rfl, hk⟩ | ⟨kb, rfl, hkb, hk⟩
  · ctl_eval [tbl_Receive, m_Receive_S_got_verified_key, hkv, hk, hS]
    exact R'
  · ctl_eval [tbl_Receive, m_Receive_S_got_verified_key, hkv, hk, hS, hkb, Send.Input.name]
    exact R'

theorem receiveC_pass_through (fuel : Nat) (h : Store) (s : RunSt) (R : RelRc h s.ctl) (a : Arg) (p : String) (m : Bytes) :
    AgreeStep RelRc (PyIR.exec (fuel + 1) envG tbl_Receive "W_happy" [.str p, .bytes m] h) (Client.exec s (.oR .W_happy) a) ∧
    AgreeStep RelRc (PyIR.exec (fuel + 1) envG tbl_Receive "W_got_verifier" [.str p, .bytes m] h)
      (Client.exec s (.oR .W_got_verifier) a) ∧
    AgreeStep RelRc (PyIR.exec (fuel + 1) envG tbl_Receive "W_got_message" [.str p, .bytes m] h)
      (Client.exec s (.oR .W_got_message) a) ∧
    AgreeStep RelRc (PyIR.exec (fuel + 1) envG tbl_Receive "W_scared" [] h) (Client.exec s (.oR .W_scared) a) := by
  have R' := R
  openRc R
  refine ⟨?_, ?_, ?_, ?_⟩ <;>
  · ctl_eval [tbl_Receive, m_Receive_W_happy, m_Receive_W_got_verifier, m_Receive_W_got_message, m_Receive_W_scared, hB, hkv,
      Boss.Input.name]
    exact R'

theorem orderC_pass_through (fuel : Nat) (h : Store) (s : RunSt) (R : RelOc h s.ctl) (a : Arg) (sd p : String) (b : Bytes) :
    AgreeStep RelOc (PyIR.exec (fuel + 1) envG tbl_Order "notify_key" [.str sd, .str p, .bytes b] h)
      (Client.exec s (.oO .notify_key) a) ∧
    AgreeStep RelOc (PyIR.exec (fuel + 2) envG tbl_Order "deliver" [.str sd, .str p, .bytes b] h)
      (Client.exec s (.oO .deliver) a) := by
  have R' := R
  obtain ⟨⟨vK, hK⟩, ⟨vR, hR⟩⟩ := R
  constructor <;>
  · ctl_eval [tbl_Order, m_Order_notify_key, m_Order_deliver, m_Order__deliver, hK, hR, Key.Input.name]
    exact R'

/-! ## RendezvousConnector glue

`ws_open`, `ws_close`, `stop`, `_initial_connection_failed` (Deferreds, a bare `raise`, nested functions) and `_tx`
(`**kwargs`) are `untranslatable`; `_tx` is therefore a recorded call on `self` — the model's `.tx cmd` item. -/

/-- every `tx_*` method is exactly one `_tx(<command>, …)`, the command being the model's `Cmd` name; `tx_close` hands the
    mood on, `tx_add` the phase -/
theorem rc_tx (fuel : Nat) (h : Store) (x y : Val) (p : String) (b : Bytes) :
    (PyIR.exec (fuel + 1) envG tbl_RendezvousConnector "tx_claim" [x] h).calls = [⟨"self", "_tx[nameplate]", [.str "claim", x]⟩] ∧
    (PyIR.exec (fuel + 1) envG tbl_RendezvousConnector "tx_release" [x] h).calls = [⟨"self", "_tx[nameplate]", [.str "release", x]⟩] ∧
    (PyIR.exec (fuel + 1) envG tbl_RendezvousConnector "tx_open" [x] h).calls = [⟨"self", "_tx[mailbox]", [.str "open", x]⟩] ∧
    (PyIR.exec (fuel + 1) envG tbl_RendezvousConnector "tx_close" [x, y] h).calls = [⟨"self", "_tx[mailbox,mood]", [.str "close", x, y]⟩] ∧
    (PyIR.exec (fuel + 1) envG tbl_RendezvousConnector "tx_list" [] h).calls = [⟨"self", "_tx", [.str "list"]⟩] ∧
    (PyIR.exec (fuel + 1) envG tbl_RendezvousConnector "tx_allocate" [] h).calls = [⟨"self", "_tx", [.str "allocate"]⟩] ∧
    (PyIR.exec (fuel + 1) envG tbl_RendezvousConnector "tx_add" [.str p, .bytes b] h).calls =
      [⟨"self", "_tx[phase,body]", [.str "add", .str p, .obj "bytes_to_hexstr" [.bytes b]]⟩] := by
  refine ⟨?_, ?_, ?_, ?_, ?_, ?_, ?_⟩ <;>
    ctl_eval [tbl_RendezvousConnector, m_RendezvousConnector_tx_claim, m_RendezvousConnector_tx_release,
      m_RendezvousConnector_tx_open, m_RendezvousConnector_tx_close, m_RendezvousConnector_tx_list,
      m_RendezvousConnector_tx_allocate, m_RendezvousConnector_tx_add]

/-- the `Cmd` names the `tx_*` methods pass to `_tx` are the model's -/
theorem rc_tx_names : [Cmd.claim, .release, .open_, .close .happy, .list, .allocate, .add .num].map cmdName =
    ["claim", "release", "open", "close", "list", "allocate", "add"] := by decide

/-- the server-frame handlers: each hands the frame's field(s) to exactly the input that `Client.step` names for the
    event (`.claimed` → `N.rx_claimed`, …); `_stopped` → `T.stoppedRC` -/
theorem rc_response_handlers (fuel : Nat) (h : Store) (vN vM vA vB vT : Val)
    (hN : h.get "_N" = some vN) (hM : h.get "_M" = some vM) (hA : h.get "_A" = some vA) (hB : h.get "_B" = some vB)
    (hT : h.get "_T" = some vT) (x y z : Val) (s sd : String) :
    (PyIR.exec (fuel + 1) envG tbl_RendezvousConnector "_response_handle_claimed" [.dict [(.str "mailbox", .str s)]] h).calls
      = [⟨"_N", "rx_claimed", [.str s]⟩] ∧
    (PyIR.exec (fuel + 1) envG tbl_RendezvousConnector "_response_handle_released" [x] h).calls = [⟨"_N", "rx_released", []⟩] ∧
    (PyIR.exec (fuel + 1) envG tbl_RendezvousConnector "_response_handle_closed" [x] h).calls = [⟨"_M", "rx_closed", []⟩] ∧
    (PyIR.exec (fuel + 1) envG tbl_RendezvousConnector "_response_handle_allocated" [.dict [(.str "nameplate", .str s)]] h).calls
      = [⟨"_A", "rx_allocated", [.str s]⟩] ∧
    (PyIR.exec (fuel + 1) envG tbl_RendezvousConnector "_response_handle_welcome" [.dict [(.str "welcome", x)]] h).calls
      = [⟨"_B", "rx_welcome", [x]⟩] ∧
    (PyIR.exec (fuel + 1) envG tbl_RendezvousConnector "_response_handle_error" [.dict [(.str "error", x), (.str "orig", y)]] h).calls
      = [⟨"_B", "rx_error", [x, y]⟩] ∧
    (PyIR.exec (fuel + 1) envG tbl_RendezvousConnector "_response_handle_message"
        [.dict [(.str "side", .str sd), (.str "phase", .str s), (.str "body", z)]] h).calls
      = [⟨"_M", "rx_message", [.str sd, .str s, .obj "hexstr_to_bytes" [z]]⟩] ∧
    (PyIR.exec (fuel + 1) envG tbl_RendezvousConnector "_response_handle_ack" [x] h).calls = [] ∧
    (PyIR.exec (fuel + 1) envG tbl_RendezvousConnector "_stopped" [x] h).calls = [⟨"_T", "stoppedRC", []⟩] := by
  refine ⟨?_, ?_, ?_, ?_, ?_, ?_, ?_, ?_, ?_⟩ <;>
    ctl_eval [tbl_RendezvousConnector, m_RendezvousConnector__response_handle_claimed,
      m_RendezvousConnector__response_handle_released, m_RendezvousConnector__response_handle_closed,
      m_RendezvousConnector__response_handle_allocated, m_RendezvousConnector__response_handle_welcome,
      m_RendezvousConnector__response_handle_error, m_RendezvousConnector__response_handle_message,
      m_RendezvousConnector__response_handle_ack, m_RendezvousConnector__stopped, hN, hM, hA, hB, hT, dictGet]

/-- `t.encode("ascii")` raises `cls` -/
def encBad (t cls : String) : String → List Val → Option String := fun f a =>
  match f, a with
  | "str.encode", [.str u, _] => if u = t then some cls else none
  | _, _ => none

/-- `_response_handle_message`, malformed frames (whatever a mailbox participant may have posted and the server relays):
    a `side` or `phase` that is not a string, a `side` / `phase` that does not encode as ASCII, a `body` that
    `hexstr_to_bytes` refuses — each way the guarded block can raise (`cls` is the caught class the failure is an instance
    of: `UnicodeEncodeError` and `binascii.Error` are `ValueError`s) — is ignored: no machine is told, nothing changes,
    no exception leaves the handler.  The only call that may be recorded is the debug trace (when `set_trace` installed one). -/
theorem rc_response_handle_message_malformed (fuel : Nat) (h : Store) (vM tr : Val) (hM : h.get "_M" = some vM)
    (htr : h.get "_trace" = some tr) (x y z : Val) (sd s : String) (cls : String)
    (hcls : cls ∈ ["AssertionError", "TypeError", "ValueError"]) :
    let run := fun (bad : String → List Val → Option String) (side phase : Val) =>
      PyIR.exec (fuel + 2) (envU bad noRaise noRets) tbl_RendezvousConnector "_response_handle_message"
        [.dict [(.str "side", side), (.str "phase", phase), (.str "body", z)]] h
    let quiet := fun (o : WV.PyIR.Outcome) => o.heap = h ∧ o.exc = none ∧ (∀ c ∈ o.calls, c.obj = "_trace")
    -- side is not a str
    (isInstance x "str" = .ok false → quiet (run noBad x y)) ∧
    -- phase is not a str
    (isInstance y "str" = .ok false → quiet (run noBad (.str sd) y)) ∧
    -- side.encode("ascii") raises
    quiet (run (encBad sd cls) (.str sd) (.str s)) ∧
    -- phase.encode("ascii") raises
    (sd ≠ s → quiet (run (encBad s cls) (.str sd) (.str s))) ∧
    -- hexstr_to_bytes(msg["body"]) raises
    quiet (run (fun f _ => if f = "hexstr_to_bytes" then some cls else none) (.str sd) (.str s)) := by
  simp only [List.mem_cons, List.mem_nil_iff, or_false] at hcls
  refine ⟨?_, ?_, ?_, ?_, ?_⟩
  · intro hx
    cases x <;> (try (simp [isInstance] at hx; done)) <;> cases htt : tr.truthy <;>
      ctl_eval [tbl_RendezvousConnector, m_RendezvousConnector__response_handle_message, m_RendezvousConnector__debug,
        dictGet, htr, htt, hM]
  · intro hy
    cases y <;> (try (simp [isInstance] at hy; done)) <;> cases htt : tr.truthy <;>
      ctl_eval [tbl_RendezvousConnector, m_RendezvousConnector__response_handle_message, m_RendezvousConnector__debug,
        dictGet, htr, htt, hM]
  · rcases hcls with rfl | rfl | rfl <;> cases htt : tr.truthy <;>
      ctl_eval [tbl_RendezvousConnector, m_RendezvousConnector__response_handle_message, m_RendezvousConnector__debug,
        dictGet, htr, htt, hM, encBad]
  · intro hne
    rcases hcls with rfl | rfl | rfl <;> cases htt : tr.truthy <;>
      ctl_eval [tbl_RendezvousConnector, m_RendezvousConnector__response_handle_message, m_RendezvousConnector__debug,
        dictGet, htr, htt, hM, encBad, hne]
  · rcases hcls with rfl | rfl | rfl <;> cases htt : tr.truthy <;>
      ctl_eval [tbl_RendezvousConnector, m_RendezvousConnector__response_handle_message, m_RendezvousConnector__debug,
        dictGet, htr, htt, hM]

/-- in the control model a frame that tells no machine anything is the no-op event (`.ack`; `ClientEnv.enabled` does not
    explore no-ops): by `rc_response_handle_message_malformed` a malformed `message` frame is exactly that -/
theorem malformed_message_is_the_noop_event (c : Ctl) : step c .ack = (c, [], .ok) := rfl

/-- a `claimed` / `allocated` frame whose field is not a string trips the handler's `assert isinstance(…, str)` before
    any machine is told -/
theorem rc_response_handle_claimed_illtyped (fuel : Nat) (h : Store) (n : Nat) :
    let o := PyIR.exec (fuel + 1) envG tbl_RendezvousConnector "_response_handle_claimed" [.dict [(.str "mailbox", .int n)]] h
    o.calls = [] ∧ o.exc = some "AssertionError" := by
  ctl_eval [tbl_RendezvousConnector, m_RendezvousConnector__response_handle_claimed, dictGet]

end WV.Props.PyIRClient
