import WV.Model.C03
import WV.Proofs.C03
import WV.Gen.PyIR

set_option linter.unusedSimpArgs false
set_option linter.unusedVariables false

/-!
Translation validation of the mailbox client's method bodies (PyIR) against the C03 model: lemmas.

* encoders from the model's data (`List (String × Bytes)`, `List String`, queues, `RxBuf`) to interpreter values,
  and the commutation of the interpreter's dict / set / list operations with the model's `dget/dset/dpop`, `∈`, `++`;
* `Rel…` : heap ⟷ model-state relations (what `WellTyped` means for each class);
* the loop inductions (`_drain`, `Send.drain`, `Order.drain`, the two strict-order `while` loops of the Boss).
-/
namespace WV.Proofs.PyIRC03
open WV WV.Gen WV.PyIR WV.C03 WV.Gen.PyIR

/-! ## stores -/

theorem get_set (h : Store) (a b : String) (v : Val) :
    (h.set a v).get b = if a = b then some v else h.get b := by
  induction h with
  | nil => simp [Store.set, Store.get]
  | cons e r ih =>
    obtain ⟨k, w⟩ := e
    by_cases hk : k = a
    · subst hk
      by_cases hb : k = b <;> simp [Store.set, Store.get, hb]
    · by_cases hb : k = b
      · subst hb
        have : ¬ a = k := fun h => hk h.symm
        simp [Store.set, Store.get, hk, this]
      · simp [Store.set, Store.get, hk, hb, ih]

theorem get_set_same (h : Store) (a : String) (v : Val) : (h.set a v).get a = some v := by
  simp [get_set]

theorem get_set_ne (h : Store) (a b : String) (v : Val) (hne : a ≠ b) : (h.set a v).get b = h.get b := by
  simp [get_set, hne]

/-! ## encoders -/

/-- a key type of the model and its image among the interpreter's scalars -/
structure KeyEnc {κ : Type} [DecidableEq κ] (kf : κ → Val) : Prop where
  eq : ∀ a b, pyEq (kf a) (kf b) = .ok (decide (a = b))
  hashable : ∀ a, (kf a).hashable = true

theorem keyEnc_str : KeyEnc Val.str :=
  ⟨fun a b => by by_cases h : a = b <;> simp [pyEq, scalarEq, h], fun _ => rfl⟩

theorem keyEnc_int : KeyEnc Val.int :=
  ⟨fun a b => by by_cases h : a = b <;> simp [pyEq, scalarEq, h], fun _ => rfl⟩

def encDict {κ β : Type} (kf : κ → Val) (vf : β → Val) (d : List (κ × β)) : List (Val × Val) :=
  d.map fun e => (kf e.1, vf e.2)

section Dict
variable {κ β : Type} [DecidableEq κ] {kf : κ → Val} (K : KeyEnc kf) (vf : β → Val)
include K

theorem dictGet_enc (d : List (κ × β)) (k : κ) :
    dictGet (kf k) (encDict kf vf d) = .ok ((dget d k).map vf) := by
  induction d with
  | nil => simp [encDict, dictGet, dget]
  | cons e r ih =>
    obtain ⟨k', v'⟩ := e
    simp only [encDict, List.map_cons] at ih ⊢
    by_cases h : k' = k <;> simp [dictGet, dget, K.eq, bind, Res.bind, pure, h, ih]

theorem dictSet_enc (d : List (κ × β)) (k : κ) (v : β) :
    dictSet (kf k) (vf v) (encDict kf vf d) = .ok (encDict kf vf (dset d k v)) := by
  induction d with
  | nil => simp [encDict, dictSet, dset]
  | cons e r ih =>
    obtain ⟨k', v'⟩ := e
    simp only [encDict, List.map_cons] at ih ⊢
    by_cases h : k' = k
    · subst h; simp [dictSet, dset, K.eq, bind, Res.bind, pure]
    · simp [dictSet, dset, K.eq, bind, Res.bind, pure, h, ih]

theorem dictDel_enc (d : List (κ × β)) (k : κ) :
    dictDel (kf k) (encDict kf vf d) = .ok (encDict kf vf (dpop d k)) := by
  induction d with
  | nil => simp [encDict, dictDel, dpop]
  | cons e r ih =>
    obtain ⟨k', v'⟩ := e
    simp only [encDict, List.map_cons, dpop] at ih ⊢
    by_cases h : k' = k <;> simp [dictDel, K.eq, bind, Res.bind, pure, h, ih]

theorem memKeys_enc (l : List κ) (k : κ) : memKeys (kf k) (l.map kf) = .ok (decide (k ∈ l)) := by
  induction l with
  | nil => simp [memKeys]
  | cons a r ih =>
    by_cases h : a = k
    · subst h; simp [memKeys, K.eq, bind, Res.bind, pure]
    · have h' : ¬ k = a := fun e => h e.symm
      simp [memKeys, K.eq, bind, Res.bind, h, h', ih]

end Dict

theorem dset_length_le {κ β : Type} [DecidableEq κ] (d : List (κ × β)) (k : κ) (v : β) :
    (dset d k v).length ≤ d.length + 1 := by
  induction d with
  | nil => simp [dset]
  | cons e r ih =>
    obtain ⟨k', v'⟩ := e
    by_cases h : k' = k <;> simp [dset, h] <;> omega

theorem encDict_length {κ β : Type} (kf : κ → Val) (vf : β → Val) (d : List (κ × β)) :
    (encDict kf vf d).length = d.length := by simp [encDict]

theorem dget_isSome_iff_mem_keys {κ β : Type} [DecidableEq κ] (d : List (κ × β)) (k : κ) :
    (dget d k).isSome = decide (k ∈ d.map (·.1)) := by
  induction d with
  | nil => simp [dget]
  | cons e r ih =>
    obtain ⟨k', v'⟩ := e
    by_cases h : k' = k
    · subst h; simp [dget]
    · have h' : ¬ k = k' := fun e => h e.symm
      simp [dget, h, h', ih]

/-! ## truthiness, constructor by constructor (never unfolded on an unknown value) -/

theorem truthy_none : Val.none.truthy = false := rfl
theorem truthy_bool (b : Bool) : (Val.bool b).truthy = b := rfl
theorem truthy_int (n : Nat) : (Val.int n).truthy = (n != 0) := rfl
theorem truthy_str (s : String) : (Val.str s).truthy = (s != "") := rfl
theorem truthy_bytes (b : List Nat) : (Val.bytes b).truthy = !b.isEmpty := rfl
theorem truthy_tuple (vs : List Val) : (Val.tuple vs).truthy = !vs.isEmpty := rfl
theorem truthy_list (vs : List Val) : (Val.list vs).truthy = !vs.isEmpty := rfl
theorem truthy_dict (vs : List (Val × Val)) : (Val.dict vs).truthy = !vs.isEmpty := rfl
theorem truthy_set (vs : List Val) : (Val.set vs).truthy = !vs.isEmpty := rfl
theorem truthy_obj (c : String) (vs : List Val) : (Val.obj c vs).truthy = true := rfl

/-! ## symbolic evaluation of the interpreter on a generated body

`pyir_eval [extra…]` normalises an `exec … tbl "meth" args heap` term: the generated body is concrete data, so
the interpreter equations reduce it to a closed form; `extra` carries the facts about the heap (`Rel…` fields)
and the commutation lemmas that the method needs.  The script does not depend on the shape of the body. -/

macro "pyir_eval" "[" ts:Lean.Parser.Tactic.simpLemma,* "]" : tactic =>
  `(tactic| simp [exec, callM, execB, execS, andThen, withVal, evalE, evalEs, readAttr, readVar, bindParams, doEmit,
      forLoop, bindPat, iterElems, valIn, valAdd, valLen, valIndex, valItems, isInstance, pyEq, scalarEq,
      Val.hashable, truthy_none, truthy_bool, truthy_int, truthy_str, truthy_bytes, truthy_tuple, truthy_list,
      truthy_dict, truthy_set, truthy_obj, St.setAttr, St.setLocal, St.bindOpt, Store.get, Store.set, Store.del, get_set,
      bind, Res.bind, pure, unsupported, $ts,*])

macro "pyir_eval_at" h:ident "[" ts:Lean.Parser.Tactic.simpLemma,* "]" : tactic =>
  `(tactic| simp [exec, callM, execB, execS, andThen, withVal, evalE, evalEs, readAttr, readVar, bindParams, doEmit,
      forLoop, bindPat, iterElems, valIn, valAdd, valLen, valIndex, valItems, isInstance, pyEq, scalarEq,
      Val.hashable, truthy_none, truthy_bool, truthy_int, truthy_str, truthy_bytes, truthy_tuple, truthy_list,
      truthy_dict, truthy_set, truthy_obj, St.setAttr, St.setLocal, St.bindOpt, Store.get, Store.set, Store.del, get_set,
      bind, Res.bind, pure, unsupported, $ts,*] at $h:ident)

/-- the environment of the C03 model: `"%d" %` is `showPhase`, the three crypto functions are the model's
    `Crypto` interface (a phase key is the triple it was derived from), the phase parsers are the model's -/
def envC (C : Crypto) : Env where
  fmtD := showPhase
  raises := fun _ => none
  ext := fun f args =>
    match f, args with
    | "derive_phase_key", [k, .str side, .str phase] => .ok (.obj "phase_key" [k, .str side, .str phase])
    | "encrypt_data", [.obj "phase_key" [_, .str side, .str phase], .bytes m] => .ok (.bytes (C.enc side phase m))
    | "decrypt_data", [.obj "phase_key" [_, .str side, .str phase], .bytes c] =>
      match C.dec side phase c with
      | some m => .ok (.bytes m)
      | none => .exc "CryptoError"
    | "derive_key", [k, .bytes purpose] => .ok (.obj "derived_key" [k, .bytes purpose])
    | "re.search", [.str "^dilate-(\\d+)$", .str s] =>
      -- the match object as the tuple of its groups; `None` when there is no match
      match parseDilate s with
      | some n => .ok (.tuple [.str s, .obj "digits" [.int n]])
      | none => .ok .none
    | "re.search", [.str "^\\d+$", .str s] =>
      match parseDigits s with
      | some n => .ok (.tuple [.obj "digits" [.int n]])
      | none => .ok .none
    | "int", [.obj "digits" [.int n]] => .ok (.int n)
    | "int", [.str s] =>
      match parseDigits s with
      | some n => .ok (.int n)
      | none => unsupported
    | "f\"received unknown phase '{}'\"", [.str s] => .ok (.str ("received unknown phase '" ++ s ++ "'"))
    | _, _ => unsupported

/-- the same with failing collaborators -/
def envCR (C : Crypto) (raises : Nat → Option String) : Env := { envC C with raises := raises }

/-! ## Mailbox -/

def encPending (d : List (String × Bytes)) : List (Val × Val) := encDict Val.str Val.bytes d

/-- heap of a `Mailbox` instance ⟷ `MboxD` (the Automat state is not an attribute: the table owns it) -/
structure RelMbox (myside : String) (h : Store) (m : MboxD) : Prop where
  side : h.get "_side" = some (.str myside)
  mailbox : ∃ v, h.get "_mailbox" = some v ∧ v.truthy = m.mailbox ∧ (v = .none ∨ ∃ s, v = .str s)
  mood : h.get "_mood" = m.mood.map Val.str
  pending : h.get "_pending_outbound" = some (.dict (encPending m.pending))
  processed : h.get "_processed" = some (.set (m.processed.map Val.str))
  wN : ∃ v, h.get "_N" = some v
  wRC : ∃ v, h.get "_RC" = some v
  wO : ∃ v, h.get "_O" = some v
  wT : ∃ v, h.get "_T" = some v

/-- what the model keeps of a call made by the Mailbox -/
def absMCall : Call → Option MEff
  | ⟨"_RC", "tx_open", [_]⟩ => some .txOpen
  | ⟨"_RC", "tx_add", [.str p, .bytes b]⟩ => some (.txAdd p b)
  | ⟨"_RC", "tx_close", [_, .str md]⟩ => some (.txClose md)
  | ⟨"_N", "release", []⟩ => some .release
  | ⟨"_O", "got_message", [.str s, .str p, .bytes b]⟩ => some (.toOrder s p b)
  | ⟨"_T", "mailbox_done", []⟩ => some .mailboxDone
  | _ => none

/-- Automat inputs of the Mailbox that `rx_message` feeds back into the machine -/
def absMInput : Call → Option (Mailbox.Input × MArg)
  | ⟨"self", "rx_message_ours", [.str p, .bytes b]⟩ => some (.rx_message_ours, .ours p b)
  | ⟨"self", "rx_message_theirs", [.str s, .str p, .bytes b]⟩ => some (.rx_message_theirs, .theirs s p b)
  | _ => none

/-- interpreter outcome ⟷ model result of one Mailbox output -/
def AgreeM (myside : String) (o : Outcome) (r : MRes) : Prop :=
  RelMbox myside o.heap r.1 ∧ o.calls.map absMCall = r.2.1.map some ∧ o.exc = r.2.2.map Err.name

theorem withVal_andThen {α : Type} (σ : St) (r : Res α) (body : α → St × Flow) (k : St → St × Flow) :
    withVal σ r (fun a => andThen (body a) k) = andThen (withVal σ r body) k := by
  cases r <;> simp [withVal, andThen]

theorem forLoop_cons (p : ForPat) (body : St → St × Flow) (v : Val) (r : List Val) (σ : St) :
    forLoop p body (v :: r) σ = andThen (withVal σ (bindPat σ p v) body) (forLoop p body r) := by
  simp only [forLoop, withVal_andThen]

/-- the locals after binding the loop pattern -/
def patLocals (p : ForPat) (v : Val) (L : Store) : Store :=
  match bindPat ⟨[], L, []⟩ p v with
  | .ok σ => σ.locals
  | .exc _ => L

/-- a `for` loop whose iterations make one collaborator call each (heap untouched), all lengths: the calls of
    the iterations, in order.  `step` is discharged by symbolic evaluation of the generated loop body.
    Stated as an unconditional equation so that it rewrites whatever normal form the body has. -/
theorem forLoop_calls (h : Store) (g : Val → Call) {p : ForPat} {body : St → St × Flow} {vs : List Val}
    (step : ∀ v ∈ vs, ∀ (L : Store) (cs : List Call),
      withVal ⟨h, L, cs⟩ (bindPat ⟨h, L, cs⟩ p v) body = (⟨h, patLocals p v L, cs ++ [g v]⟩, .norm))
    (L : Store) (cs : List Call) :
    forLoop p body vs ⟨h, L, cs⟩ = (⟨h, vs.foldl (fun L v => patLocals p v L) L, cs ++ vs.map g⟩, .norm) := by
  induction vs generalizing L cs with
  | nil => simp [forLoop]
  | cons v r ih =>
    have h1 := step v (by simp) L cs
    have h2 := ih (fun v hv => step v (by simp [hv])) (patLocals p v L) (cs ++ [g v])
    simp [forLoop_cons, h1, andThen, h2]

/-- the same loop when the collaborator fails in the iteration for `v` (the `N`-th recorded call overall): the
    iterations before it have run, the failing call is recorded, nothing after it happens (in particular nothing
    that follows the loop) -/
theorem forLoop_calls_abort (h : Store) (g : Val → Call) (c : String) (N : Nat) {p : ForPat} {body : St → St × Flow}
    (pre : List Val) (v : Val) (post : List Val)
    (stepOk : ∀ w ∈ pre, ∀ (L : Store) (cs : List Call), cs.length < N →
      withVal ⟨h, L, cs⟩ (bindPat ⟨h, L, cs⟩ p w) body = (⟨h, patLocals p w L, cs ++ [g w]⟩, .norm))
    (stepBad : ∀ (L : Store) (cs : List Call), cs.length = N →
      withVal ⟨h, L, cs⟩ (bindPat ⟨h, L, cs⟩ p v) body = (⟨h, patLocals p v L, cs ++ [g v]⟩, .exc c))
    (L : Store) (cs : List Call) (hcs : cs.length + pre.length = N) :
    forLoop p body (pre ++ v :: post) ⟨h, L, cs⟩ =
      (⟨h, patLocals p v (pre.foldl (fun L v => patLocals p v L) L), cs ++ (pre ++ [v]).map g⟩, .exc c) := by
  induction pre generalizing L cs with
  | nil => simp [forLoop_cons, stepBad L cs (by simpa using hcs), andThen]
  | cons w r ih =>
    have h1 := stepOk w (by simp) L cs (by simp at hcs; omega)
    have h2 := ih (fun v hv => stepOk v (by simp [hv])) (patLocals p w L) (cs ++ [g w]) (by simp at hcs ⊢; omega)
    simp [forLoop_cons, h1, andThen, h2]

/-! ## the strict-order `while` loops of the Boss

`while self._next in self._dict: call(self._dict.pop(self._next)); self._next += 1` against the model's `rxLoop`,
for every buffer size.  `Inv h b` says that the heap `h` holds the buffer `b`; `hcond` / `hbody` are discharged
by symbolic evaluation of the generated loop condition and body (whatever their normal form is).  In
continuation-passing form so that `refine` can take the loop from the goal. -/
theorem whileLoop_rx {G : Prop} (Inv : Store → RxBuf → Prop) (mk : Bytes → Call)
    {cond : St → Res Val} {body : St → St × Flow} {F : Nat} {σ : St} {w : St × Flow}
    (hw : whileLoop cond body F σ = w) (b : RxBuf)
    (hcond : ∀ h b L cs, Inv h b → cond ⟨h, L, cs⟩ = .ok (.bool (dget b.phases b.next).isSome))
    (hbody : ∀ h b L cs v, Inv h b → dget b.phases b.next = some v →
      ∃ h' L', body ⟨h, L, cs⟩ = (⟨h', L', cs ++ [mk v]⟩, .norm) ∧ Inv h' ⟨b.next + 1, dpop b.phases b.next⟩)
    (hI : Inv σ.heap b) (hF : b.phases.length < F)
    (cont : ∀ h' L', Inv h' (rxLoop b.phases.length b []).1 →
      w = (⟨h', L', σ.calls ++ (rxLoop b.phases.length b []).2.map mk⟩, .norm) → G) : G := by
  suffices key : ∀ (n : Nat) (b : RxBuf) (F : Nat) (h L cs), Inv h b → b.phases.length ≤ n → n < F →
      ∃ h' L', whileLoop cond body F ⟨h, L, cs⟩ = (⟨h', L', cs ++ (rxLoop n b []).2.map mk⟩, .norm) ∧
        Inv h' (rxLoop n b []).1 by
    obtain ⟨h', L', e, hI'⟩ := key b.phases.length b F σ.heap σ.locals σ.calls hI (Nat.le_refl _) hF
    exact cont h' L' hI' (hw ▸ e)
  intro n
  induction n with
  | zero =>
    intro b F h L cs hI hlen hF
    obtain ⟨F, rfl⟩ : ∃ F', F = F' + 1 := ⟨F - 1, by omega⟩
    have hnone : dget b.phases b.next = none :=
      WV.Proofs.C03.dget_nil_of_length_zero _ _ (by omega)
    refine ⟨h, L, ?_, by simpa [rxLoop] using hI⟩
    simp [whileLoop, hcond h b L cs hI, hnone, withVal, truthy_bool, rxLoop]
  | succ n ih =>
    intro b F h L cs hI hlen hF
    obtain ⟨F, rfl⟩ : ∃ F', F = F' + 1 := ⟨F - 1, by omega⟩
    cases hg : dget b.phases b.next with
    | none =>
      refine ⟨h, L, ?_, by simpa [rxLoop, hg] using hI⟩
      simp [whileLoop, hcond h b L cs hI, hg, withVal, truthy_bool, rxLoop]
    | some v =>
      obtain ⟨h1, L1, hb, hI1⟩ := hbody h b L cs v hI hg
      have hlt := WV.Proofs.C03.dpop_length_lt b.phases b.next v hg
      obtain ⟨h', L', e, hI'⟩ := ih ⟨b.next + 1, dpop b.phases b.next⟩ F h1 L1 (cs ++ [mk v]) hI1
        (by simp only; omega) (by omega)
      refine ⟨h', L', ?_, ?_⟩
      · simp only [whileLoop, hcond h b L cs hI, hg, withVal, truthy_bool, Option.isSome_some, if_true, hb, andThen, e]
        rw [rxLoop, hg]
        simp only
        rw [WV.Proofs.C03.rxLoop_acc n _ ([] ++ [v])]
        simp
      · rw [rxLoop, hg]
        simp only
        rw [WV.Proofs.C03.rxLoop_acc n _ ([] ++ [v])]
        exact hI'

/-! ## Order -/

def enc3 (e : String × String × Bytes) : Val := .tuple [.str e.1, .str e.2.1, .bytes e.2.2]

structure RelOrder (h : Store) (s : OrderD) : Prop where
  queue : h.get "_queue" = some (.list (s.queue.map enc3))
  wK : ∃ v, h.get "_K" = some v
  wR : ∃ v, h.get "_R" = some v

def absOCall : Call → Option OEff
  | ⟨"_K", "got_pake", [.bytes b]⟩ => some (.kGotPake b)
  | ⟨"_R", "got_message", [.str s, .str p, .bytes b]⟩ => some (.rGotMessage s p b)
  | _ => none

def absOInput : Call → Option (Order.Input × (String × String × Bytes))
  | ⟨"self", "got_pake", [.str s, .str p, .bytes b]⟩ => some (.got_pake, (s, p, b))
  | ⟨"self", "got_non_pake", [.str s, .str p, .bytes b]⟩ => some (.got_non_pake, (s, p, b))
  | _ => none

def AgreeO (o : Outcome) (r : OrderD × List OEff) : Prop :=
  RelOrder o.heap r.1 ∧ o.calls.map absOCall = r.2.map some ∧ o.exc = none

/-- the call `_R.got_message(side, phase, body)` of one `Order.drain` iteration -/
def gDeliver : Val → Call
  | .tuple [s, p, b] => ⟨"_R", "got_message", [s, p, b]⟩
  | _ => ⟨"", "", []⟩

/-! ## Send -/

def enc2 (e : String × Bytes) : Val := .tuple [.str e.1, .bytes e.2]

/-- `Send` has no `_key` attribute before `record_key` (its constructor only creates `_queue`) -/
structure RelSend (side : String) (h : Store) (s : SendD) : Prop where
  side : h.get "_side" = some (.str side)
  queue : h.get "_queue" = some (.list (s.queue.map enc2))
  keyYes : s.key = true → ∃ k, h.get "_key" = some k ∧ k.truthy = true
  keyNo : s.key = false → h.get "_key" = none
  wM : ∃ v, h.get "_M" = some v

def absSCall : Call → Option SEff
  | ⟨"_M", "add_message", [.str p, .bytes c]⟩ => some (p, c)
  | _ => none

def AgreeS (side : String) (o : Outcome) (r : SRes) : Prop :=
  RelSend side o.heap r.1 ∧ o.calls.map absSCall = r.2.1.map some ∧ o.exc = r.2.2.map Err.name

/-- the call `_M.add_message(phase, encrypt(…))` of one `Send.drain` iteration -/
def gAddMessage (C : Crypto) (side : String) : Val → Call
  | .tuple [.str p, .bytes m] => ⟨"_M", "add_message", [.str p, .bytes (C.enc side p m)]⟩
  | _ => ⟨"", "", []⟩

theorem sendDrainLoop_key (C : Crypto) (side : String) (s : SendD) (hk : s.key = true) (q : List (String × Bytes))
    (acc : List SEff) :
    sendDrainLoop C side s q acc = (acc ++ q.map (fun e => (e.1, C.enc side e.1 e.2)), none) := by
  induction q generalizing acc with
  | nil => simp [sendDrainLoop]
  | cons e r ih =>
    obtain ⟨p, m⟩ := e
    simp [sendDrainLoop, encryptAndSend, hk, ih]

/-! ## Receive -/

/-- `Receive._key` is `None` until `record_key`, then the 32-byte session key -/
structure RelRecv (h : Store) (r : RecvD) : Prop where
  key : ∃ k, h.get "_key" = some k ∧
    ((k = .none ∧ r.key = false) ∨ (∃ kb, k = .bytes kb ∧ kb ≠ [] ∧ r.key = true))
  wB : ∃ v, h.get "_B" = some v
  wS : ∃ v, h.get "_S" = some v

def absRCall : Call → Option REff
  | ⟨"_S", "got_verified_key", [_]⟩ => some .sGotVerifiedKey
  | ⟨"_B", "happy", []⟩ => some .bHappy
  | ⟨"_B", "got_verifier", [_]⟩ => some .bGotVerifier
  | ⟨"_B", "scared", []⟩ => some .bScared
  | ⟨"_B", "got_message", [.str p, .bytes m]⟩ => some (.bGotMessage p m)
  | _ => none

def absRInput : Call → Option (Receive.Input × RArg)
  | ⟨"self", "got_message_bad", []⟩ => some (.got_message_bad, .bad)
  | ⟨"self", "got_message_good", [.str p, .bytes m]⟩ => some (.got_message_good, .good p m)
  | _ => none

def AgreeR (o : Outcome) (r : RRes) : Prop :=
  RelRecv o.heap r.1 ∧ o.calls.map absRCall = r.2.1.map some ∧ o.exc = r.2.2.map Err.name

/-! ## Boss -/

def encRx (d : List (Nat × Bytes)) : List (Val × Val) := encDict Val.int Val.bytes d

structure RelBoss (h : Store) (b : BossD) : Prop where
  nextTx : h.get "_next_tx_phase" = some (.int b.nextTx)
  rxNext : h.get "_next_rx_phase" = some (.int b.rx.next)
  rxPhases : h.get "_rx_phases" = some (.dict (encRx b.rx.phases))
  drxNext : h.get "_next_rx_dilate_seqnum" = some (.int b.drx.next)
  drxPhases : h.get "_rx_dilate_seqnums" = some (.dict (encRx b.drx.phases))
  result : ∃ v, h.get "_result" = some v
  wS : ∃ v, h.get "_S" = some v
  wW : ∃ v, h.get "_W" = some v
  wD : ∃ v, h.get "_D" = some v
  wT : ∃ v, h.get "_T" = some v

def absBCall : Call → Option BEff
  | ⟨"_S", "send", [.str p, .bytes m]⟩ => some (.sSend p m)
  | ⟨"_W", "received", [.bytes m]⟩ => some (.wReceived m)
  | ⟨"_D", "received_dilate", [.bytes m]⟩ => some (.dReceived m)
  | ⟨"_T", "close", [.str md]⟩ => some (.tClose md)
  | ⟨"_W", "closed", [_]⟩ => some .wClosed
  | ⟨"_W", "got_code", [_]⟩ => some .wGotCode
  | ⟨"_W", "got_key", [_]⟩ => some .wGotKey
  | ⟨"_D", "got_key", [_]⟩ => some .dGotKey
  | ⟨"_W", "got_verifier", [_]⟩ => some .wGotVerifier
  | ⟨"_D", "got_wormhole_versions", [_]⟩ => some .dVersions
  | ⟨"_W", "got_versions", [_]⟩ => some .wVersions
  | _ => none

def absBInput : Call → Option (Boss.Input × BArg)
  | ⟨"self", "_got_version", [.bytes m]⟩ => some (.u_got_version, .pt m)
  | ⟨"self", "_got_dilate", [.int n, .bytes m]⟩ => some (.u_got_dilate, .phase n m)
  | ⟨"self", "_got_phase", [.int n, .bytes m]⟩ => some (.u_got_phase, .phase n m)
  | _ => none

def AgreeB (o : Outcome) (r : BRes) : Prop :=
  RelBoss o.heap r.1 ∧ o.calls.map absBCall = r.2.1.map some ∧ o.exc = r.2.2.map Err.name

end WV.Proofs.PyIRC03
