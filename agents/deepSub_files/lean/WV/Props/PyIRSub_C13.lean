import WV.Proofs.PyIRSub

set_option linter.unusedSimpArgs false
set_option linter.unusedVariables false

/-!
Translation validation of method BODIES, C13 part (subchannels): for the `SubChannel` outputs and helper methods, the
`SubchannelDemultiplex` methods and the `Manager` forwarders that the C13 model gives semantics to, the PyIR interpreter
run on the body that `tools/extract.py::extract_pyir_sub` generated from the working tree (`WV.Gen.PyIRSub`) agrees with
the hand-written model (`WV.C13`).
-/
namespace WV.Props.PyIRSubC13
open WV WV.PyIR WV.C13 WV.Gen WV.Gen.PyIRSub WV.Proofs.PyIRC03 WV.Proofs.PyIRDil WV.Proofs.PyIRSub

set_option hygiene false in
macro "sc_open" R:ident : tactic =>
  `(tactic| obtain ⟨hid, ⟨mg, hmg⟩, hpr, hpd, hpc⟩ := $R)

/-- what "a body of SubChannel `uid` agrees with the model function whose result is `model`" means: the object's own
    attributes afterwards are those of some `sc'`; without an exception `model` is "write `sc'` back, then do what the
    model does for the recorded collaborator calls / Automat inputs, in order" (`callsSem`); with an exception nothing was
    called and the model reports the same class -/
def Agrees (uid : Nat) (s : Side) (model : C13.Res) (out : Outcome) : Prop :=
  ∃ sc', RelSC out.heap sc' ∧
    match out.exc with
    | none => model = callsSem uid sc'.proto out.calls (updSC uid (fun _ => sc') s)
    | some c => out.calls = [] ∧ ∃ e, errOf c = some e ∧ model = (updSC uid (fun _ => sc') s, some e)

def OutAgrees (uid : Nat) (arg : Bytes) (o : SubChannel.Output) (s : Side) (out : Outcome) : Prop :=
  Agrees uid s (runOut uid arg o s) out

/-- the statement for output `o`, on every side, every object of it, every related heap, every argument, every fuel -/
def OutputAgrees (o : SubChannel.Output) : Prop :=
  ∀ (fuel : Nat) (kd : PKind) (pr : Nat → Nat) (s : Side) (uid : Nat) (sc : SC), s.subs[uid]? = some sc →
    ∀ (h : Store), RelSC h sc → ∀ (arg : Bytes),
      OutAgrees uid arg o s (exec (fuel + 1) (envS kd pr) tbl_SubChannel o.name (outArgs o arg) h)

macro "sub_eval" "[" ts:Lean.Parser.Tactic.simpLemma,* "]" : tactic =>
  `(tactic| dil_eval [tbl_SubChannel, envS, outArgs, OutAgrees, Agrees, errOf, runOut, callsSem, callSem, closeSem, andThen_nil,
      andThen_pure, andThen_ok, andThen_err,
      SubChannel.Output.name, encData, encProto, kindCls, get_filter_ne, $ts,*])

theorem sc_queue_remote_data : OutputAgrees .queue_remote_data := by
  intro fuel kd pr s uid sc hsc h R arg
  have R0 := R
  sc_open R
  cases hd : sc.pendingData with
  | none =>
    rw [hd] at hpd
    refine ⟨sc, ?_⟩
    sub_eval [m_SubChannel_queue_remote_data, hpd, hsc, hd, updSC_self uid s sc hsc]
    exact R0
  | some l =>
    rw [hd] at hpd
    refine ⟨{ sc with pendingData := some (l ++ [arg]) }, ?_⟩
    sub_eval [m_SubChannel_queue_remote_data, hpd, hsc, hd]
    refine ⟨⟨by simp [get_set, *], ⟨mg, by simp [get_set, *]⟩, by simp [get_set, *], by simp [get_set, encData], ?_⟩,
      updSC_const uid _ s sc hsc⟩
    rcases hpc with hpc | ⟨_, _, hc⟩
    · exact Or.inl (by simp [get_set, hpc])
    · rw [hd] at hc; cases hc

theorem sc_queue_remote_close : OutputAgrees .queue_remote_close := by
  intro fuel kd pr s uid sc hsc h R arg
  sc_open R
  refine ⟨{ sc with pendingClose := true }, ?_⟩
  sub_eval [m_SubChannel_queue_remote_close, hsc]
  exact ⟨⟨by simp [get_set, *], ⟨mg, by simp [get_set, *]⟩, by simp [get_set, *], by simp [get_set, *],
    Or.inl (by simp [get_set])⟩, updSC_const uid _ s sc hsc⟩

theorem sc_send_data : OutputAgrees .send_data := by
  intro fuel kd pr s uid sc hsc h R arg
  have R0 := R
  sc_open R
  refine ⟨sc, ?_⟩
  sub_eval [m_SubChannel_send_data, hsc, hmg, hid, updSC_self uid s sc hsc]
  exact R0

theorem sc_send_close : OutputAgrees .send_close := by
  intro fuel kd pr s uid sc hsc h R arg
  have R0 := R
  sc_open R
  refine ⟨sc, ?_⟩
  sub_eval [m_SubChannel_send_close, hsc, hmg, hid, updSC_self uid s sc hsc]
  exact R0

theorem sc_close_subchannel : OutputAgrees .close_subchannel := by
  intro fuel kd pr s uid sc hsc h R arg
  have R0 := R
  sc_open R
  refine ⟨sc, ?_⟩
  sub_eval [m_SubChannel_close_subchannel, hsc, hmg, hid, updSC_self uid s sc hsc]
  refine ⟨R0, ?_⟩
  cases lookup sc.scid s.open_ with
  | none => rfl
  | some u => by_cases hu : u = uid <;> simp [hu]

theorem sc_error_closed_write : OutputAgrees .error_closed_write := by
  intro fuel kd pr s uid sc hsc h R arg
  refine ⟨sc, ?_⟩
  sub_eval [m_SubChannel_error_closed_write, hsc, updSC_self uid s sc hsc]
  exact R

theorem sc_error_closed_close : OutputAgrees .error_closed_close := by
  intro fuel kd pr s uid sc hsc h R arg
  refine ⟨sc, ?_⟩
  sub_eval [m_SubChannel_error_closed_close, hsc, updSC_self uid s sc hsc]
  exact R

theorem sc_signal_dataReceived : OutputAgrees .signal_dataReceived := by
  intro fuel kd pr s uid sc hsc h R arg
  have R0 := R
  sc_open R
  refine ⟨sc, ?_⟩
  rcases hp : sc.proto with _ | ⟨pid, k⟩ <;> rw [hp] at hpr <;>
    sub_eval [m_SubChannel_signal_dataReceived, hsc, hpr, hp, updSC_self uid s sc hsc] <;> exact R0

theorem sc_signal_connectionLost : OutputAgrees .signal_connectionLost := by
  intro fuel kd pr s uid sc hsc h R arg
  have R0 := R
  sc_open R
  refine ⟨sc, ?_⟩
  rcases hp : sc.proto with _ | ⟨pid, k⟩ <;> rw [hp] at hpr <;>
    sub_eval [m_SubChannel_signal_connectionLost, hsc, hpr, hp, updSC_self uid s sc hsc] <;> exact R0

theorem sc_signal_readConnectionLost : OutputAgrees .signal_readConnectionLost := by
  intro fuel kd pr s uid sc hsc h R arg
  have R0 := R
  sc_open R
  refine ⟨sc, ?_⟩
  rcases hp : sc.proto with _ | ⟨pid, _ | _⟩ <;> rw [hp] at hpr <;>
    sub_eval [m_SubChannel_signal_readConnectionLost, hsc, hpr, hp, updSC_self uid s sc hsc] <;> exact R0

theorem sc_signal_writeConnectionLost : OutputAgrees .signal_writeConnectionLost := by
  intro fuel kd pr s uid sc hsc h R arg
  have R0 := R
  sc_open R
  refine ⟨sc, ?_⟩
  rcases hp : sc.proto with _ | ⟨pid, _ | _⟩ <;> rw [hp] at hpr <;>
    sub_eval [m_SubChannel_signal_writeConnectionLost, hsc, hpr, hp, updSC_self uid s sc hsc] <;> exact R0

/-- **every `@m.output` of `SubChannel` is `runOut`** -/
theorem sc_outputs_agree (o : SubChannel.Output) : OutputAgrees o := by
  cases o
  · exact sc_close_subchannel
  · exact sc_error_closed_close
  · exact sc_error_closed_write
  · exact sc_queue_remote_close
  · exact sc_queue_remote_data
  · exact sc_send_close
  · exact sc_send_data
  · exact sc_signal_connectionLost
  · exact sc_signal_dataReceived
  · exact sc_signal_readConnectionLost
  · exact sc_signal_writeConnectionLost

/-! ## SubChannel: the plain methods -/

/-- `_set_protocol(p)` is `setProtocol`: the assertion, the attribute, then exactly one of the two Automat inputs -/
theorem sc_set_protocol (fuel : Nat) (kd : PKind) (pr : Nat → Nat) (s : Side) (uid : Nat) (sc : SC)
    (hsc : s.subs[uid]? = some sc) (h : Store) (R : RelSC h sc) (pid : Nat) (k : PKind) :
    Agrees uid s (setProtocol uid pid k s)
      (exec (fuel + 1) (envS kd pr) tbl_SubChannel "_set_protocol" [encProto (some (pid, k))] h) := by
  have R0 := R
  sc_open R
  rcases hp : sc.proto with _ | ⟨p0, k0⟩ <;> rw [hp] at hpr
  · refine ⟨{ sc with proto := some (pid, k) }, ?_⟩
    cases k <;> sub_eval [m_SubChannel__set_protocol, hsc, hpr, hp, setProtocol] <;>
      exact ⟨⟨by simp [get_set, *], ⟨mg, by simp [get_set, *]⟩, by simp [get_set, encProto, kindCls],
        by simp [get_set, *], by simpa [get_set] using hpc⟩, by rw [updSC_const uid _ s sc hsc]⟩
  · refine ⟨sc, ?_⟩
    sub_eval [m_SubChannel__set_protocol, hsc, hpr, hp, setProtocol, updSC_self uid s sc hsc]
    exact R0

/-- what `step` does for `lose pid` / `loseWrite pid` / `write pid d` once the protocol's SubChannel is found -/
def loseModel (uid : Nat) (k : PKind) (s : Side) : C13.Res :=
  if k = .half then (s, some .normalCloseOnHalf) else scInput uid .local_close [] s

def loseWriteModel (uid : Nat) (k : PKind) (s : Side) : C13.Res :=
  if k = .half then scInput uid .local_close [] s else (s, some .halfCloseOnNonHalf)

theorem step_lose (s : Side) (pid uid : Nat) (k : PKind) (hf : findProto pid s.subs 0 = some (uid, k)) :
    step s (.lose pid) = loseModel uid k s ∧ step s (.loseWrite pid) = loseWriteModel uid k s ∧
      ∀ d, step s (.write pid d) = scInput uid .local_data d s := by
  simp [step, hf, loseModel, loseWriteModel]

/-- `loseConnection()`: refused for a half-closeable protocol, otherwise the `local_close` input -/
theorem sc_loseConnection (fuel : Nat) (kd : PKind) (pr : Nat → Nat) (s : Side) (uid : Nat) (sc : SC)
    (hsc : s.subs[uid]? = some sc) (h : Store) (R : RelSC h sc) (pid : Nat) (k : PKind) (hp : sc.proto = some (pid, k)) :
    Agrees uid s (loseModel uid k s) (exec (fuel + 1) (envS kd pr) tbl_SubChannel "loseConnection" [] h) := by
  have R0 := R
  sc_open R
  rw [hp] at hpr
  refine ⟨sc, ?_⟩
  cases k <;> sub_eval [m_SubChannel_loseConnection, hsc, hpr, hp, loseModel, updSC_self uid s sc hsc] <;> exact R0

/-- `loseWriteConnection()`: refused unless the protocol is half-closeable -/
theorem sc_loseWriteConnection (fuel : Nat) (kd : PKind) (pr : Nat → Nat) (s : Side) (uid : Nat) (sc : SC)
    (hsc : s.subs[uid]? = some sc) (h : Store) (R : RelSC h sc) (pid : Nat) (k : PKind) (hp : sc.proto = some (pid, k)) :
    Agrees uid s (loseWriteModel uid k s) (exec (fuel + 1) (envS kd pr) tbl_SubChannel "loseWriteConnection" [] h) := by
  have R0 := R
  sc_open R
  rw [hp] at hpr
  refine ⟨sc, ?_⟩
  cases k <;> sub_eval [m_SubChannel_loseWriteConnection, hsc, hpr, hp, loseWriteModel, updSC_self uid s sc hsc] <;> exact R0

/-- `MAX_FRAME_LENGTH`, as the translator evaluated it from the module -/
def maxFrameLength : Nat := 4294967270

/-- `write(data)` for a frame that fits: the `local_data` input with the same bytes -/
theorem sc_write (fuel : Nat) (kd : PKind) (pr : Nat → Nat) (s : Side) (uid : Nat) (sc : SC)
    (hsc : s.subs[uid]? = some sc) (h : Store) (R : RelSC h sc) (d : Bytes) (hlen : d.length ≤ maxFrameLength) :
    Agrees uid s (scInput uid .local_data d s) (exec (fuel + 1) (envS kd pr) tbl_SubChannel "write" [.bytes d] h) := by
  refine ⟨sc, ?_⟩
  unfold maxFrameLength at hlen
  have hlen' : (d.length : Int) ≤ 4294967270 := by omega
  sub_eval [m_SubChannel_write, hsc, updSC_self uid s sc hsc, hlen']
  exact R

/-- … and for a frame that does not fit the code raises AssertionError before the machine sees anything.  The model's
    `step (.write pid d)` has no such bound (FINDING, harmless: 4 GiB frames are outside every driven schedule). -/
theorem sc_write_too_long (fuel : Nat) (kd : PKind) (pr : Nat → Nat) (h : Store) (d : Bytes)
    (hlen : maxFrameLength < d.length) :
    let out := exec (fuel + 1) (envS kd pr) tbl_SubChannel "write" [.bytes d] h
    out.exc = some "AssertionError" ∧ out.calls = [] ∧ out.heap = h := by
  unfold maxFrameLength at hlen
  have : ¬ (d.length : Int) ≤ 4294967270 := by omega
  sub_eval [m_SubChannel_write, this]

/-- `__attrs_post_init__` on the attributes attrs has just stored: the object is `SC.new` -/
theorem sc_post_init (fuel : Nat) (kd : PKind) (pr : Nat → Nat) (scid mg : Nat) (name : String) (h : Store)
    (hid : h.get "_scid" = some (.int scid)) (hmg : h.get "_manager" = some (.ref "Manager" mg)) :
    let out := exec (fuel + 1) (envS kd pr) tbl_SubChannel "__attrs_post_init__" [] h
    RelSC out.heap (SC.new scid name) ∧ out.calls = [] ∧ out.exc = none := by
  sub_eval [m_SubChannel___attrs_post_init__, SC.new]
  exact ⟨by simp [get_set, hid], ⟨mg, by simp [get_set, hmg]⟩, by simp [get_set, encProto], by simp [get_set, encData],
    Or.inl (by simp [get_set])⟩

/-- `_deliver_queued_data()` with nothing failing: every queued chunk goes to the `remote_data` input in arrival order
    (for every queue length), THEN `_pending_remote_data` is deleted, then — if a close was queued — the `remote_close`
    input, then `_pending_remote_close` is deleted.  With `deliverQueued_is_calls` this is `WV.C13.deliverQueued`. -/
theorem sc_deliver_queued_data (fuel : Nat) (kd : PKind) (pr : Nat → Nat) (h : Store) (sc : SC) (R : RelSC h sc)
    (l : List Bytes) (hd : sc.pendingData = some l) :
    let out := exec (fuel + 1) (envS kd pr) tbl_SubChannel "_deliver_queued_data" [] h
    out.exc = none ∧ out.calls = l.map dataCall ++ (if sc.pendingClose then [closeCall] else []) ∧
      RelSC out.heap { sc with pendingData := none, pendingClose := false } := by
  sc_open R
  rw [hd] at hpd
  have hpc : h.get "_pending_remote_close" = some (.bool sc.pendingClose) := by
    rcases hpc with hpc | ⟨_, _, hc⟩
    · exact hpc
    · rw [hd] at hc; cases hc
  dil_eval [tbl_SubChannel, m_SubChannel__deliver_queued_data, envS, hpd, encData]
  generalize hw : forLoop _ _ _ _ = w
  refine forLoop_remote_data l hw ?hbody ?cont
  case hbody =>
    intro σ v hv
    dil_eval [hv]
  case cont =>
    intro L' hw'
    subst hw'
    cases hcl : sc.pendingClose <;> rw [hcl] at hpc <;>
      dil_eval [hpd, hpc, get_filter_ne, get_filter_ne2, closeCall] <;>
      refine ⟨by simp [get_set, get_filter_ne, get_filter_ne2, *], ⟨mg, by simp [get_set, get_filter_ne, get_filter_ne2, *]⟩,
        by simp [get_set, get_filter_ne, get_filter_ne2, *], by simp [get_set, get_filter_ne, get_filter_ne2, *], ?_⟩ <;>
      first
        | (left; simp [get_set, get_filter_ne, get_filter_ne2, hpc]; done)
        | (right; exact ⟨by simp [get_set, get_filter_ne, get_filter_ne2], rfl, rfl⟩)

/-- the model's `deliverQueued`, written as the model's meaning of exactly those calls with the two deletions at
    exactly those points -/
theorem deliverQueued_is_calls (uid : Nat) (s : Side) (sc : SC) (hsc : s.subs[uid]? = some sc) (l : List Bytes)
    (hd : sc.pendingData = some l) (p : Option (Nat × PKind)) :
    deliverQueued uid s =
      C13.andThen (callsSem uid p (l.map dataCall) s) fun s1 =>
        let s2 := updSC uid (fun c => { c with pendingData := none }) s1
        match s2.subs[uid]? with
        | none => (s2, some .internal)
        | some sc2 =>
          if sc2.pendingClose then
            C13.andThen (callSem uid p closeCall s2) fun s3 => (updSC uid (fun c => { c with pendingClose := false }) s3, none)
          else (s2, none) := by
  have hc : ∀ s2, callSem uid p closeCall s2 = scInput uid .remote_close [] s2 := fun s2 => by
    simp [callSem, closeCall]
  simp only [deliverQueued, hsc, hd, feedData_eq_calls uid p, hc]
  rfl

/-- `_deliver_queued_data()` when `_pending_remote_data` is already gone (a second call): AttributeError, as in the model -/
theorem sc_deliver_queued_data_twice (fuel : Nat) (kd : PKind) (pr : Nat → Nat) (s : Side) (uid : Nat) (sc : SC)
    (hsc : s.subs[uid]? = some sc) (h : Store) (R : RelSC h sc) (hd : sc.pendingData = none) :
    Agrees uid s (deliverQueued uid s) (exec (fuel + 1) (envS kd pr) tbl_SubChannel "_deliver_queued_data" [] h) := by
  have R0 := R
  sc_open R
  rw [hd] at hpd
  refine ⟨sc, ?_⟩
  sub_eval [m_SubChannel__deliver_queued_data, hpd, hsc, hd, deliverQueued, updSC_self uid s sc hsc]
  exact R0

/-- the ORDER inside `_deliver_queued_data` when the `k`-th input raises (`k` below the queue length): the loop stops
    there and NOTHING has been deleted yet — the object still holds its queue (the model: `andThen (feedData …)`) -/
theorem sc_deliver_queued_data_raise_in_loop (fuel : Nat) (kd : PKind) (pr : Nat → Nat) (h : Store) (sc : SC)
    (R : RelSC h sc) (l : List Bytes) (hd : sc.pendingData = some l) (k : Nat) (c : String) (hk : k < l.length) :
    let out := exec (fuel + 1) (envSR kd pr k c) tbl_SubChannel "_deliver_queued_data" [] h
    out.exc = some c ∧ out.calls = (l.take (k + 1)).map dataCall ∧ out.heap = h := by
  sc_open R
  rw [hd] at hpd
  dil_eval [tbl_SubChannel, m_SubChannel__deliver_queued_data, envSR, envS, hpd, encData]
  generalize hw : forLoop _ _ _ _ = w
  refine forLoop_remote_data_raise l k c hw ?hbody (by simp) ?cont
  case hbody =>
    intro σ v hv
    by_cases hj : σ.calls.length = k <;> dil_eval [hv, hj]
  case cont =>
    intro L' hw'
    subst hw'
    simp [hk]

/-- … and when the `remote_close` input (call number `l.length`) raises: the queue attribute is already deleted, the
    close flag is still there and still set (the model: `pendingData = none`, `pendingClose` unchanged) -/
theorem sc_deliver_queued_data_raise_in_close (fuel : Nat) (kd : PKind) (pr : Nat → Nat) (h : Store) (sc : SC)
    (R : RelSC h sc) (l : List Bytes) (hd : sc.pendingData = some l) (hcl : sc.pendingClose = true) (c : String) :
    let out := exec (fuel + 1) (envSR kd pr l.length c) tbl_SubChannel "_deliver_queued_data" [] h
    out.exc = some c ∧ out.calls = l.map dataCall ++ [closeCall] ∧ RelSC out.heap { sc with pendingData := none } := by
  sc_open R
  rw [hd] at hpd
  have hpc : h.get "_pending_remote_close" = some (.bool sc.pendingClose) := by
    rcases hpc with hpc | ⟨_, _, hc⟩
    · exact hpc
    · rw [hd] at hc; cases hc
  rw [hcl] at hpc
  dil_eval [tbl_SubChannel, m_SubChannel__deliver_queued_data, envSR, envS, hpd, encData]
  generalize hw : forLoop _ _ _ _ = w
  refine forLoop_remote_data_raise l l.length c hw ?hbody (by simp) ?cont
  case hbody =>
    intro σ v hv
    by_cases hj : σ.calls.length = l.length <;> dil_eval [hv, hj]
  case cont =>
    intro L' hw'
    subst hw'
    dil_eval [hpd, hpc, get_filter_ne, get_filter_ne2, closeCall]
    exact ⟨by simp [get_set, get_filter_ne, get_filter_ne2, *], ⟨mg, by simp [get_set, get_filter_ne, get_filter_ne2, *]⟩,
      by simp [get_set, get_filter_ne, get_filter_ne2, *], by simp [get_set, get_filter_ne, get_filter_ne2, *],
      Or.inl (by simp [get_set, get_filter_ne, get_filter_ne2, *])⟩

/-- the IProducer / IConsumer methods of the transport: one call each into the Manager with the subchannel itself as the
    argument (what happens there is C15's subject: `WV.Props.PyIRC15`) -/
theorem sc_flow_forwarders (fuel : Nat) (kd : PKind) (pr : Nat → Nat) (h : Store) (mg : Nat)
    (hmg : h.get "_manager" = some (.ref "Manager" mg)) (prod strm : Val) :
    (let out := exec (fuel + 1) (envS kd pr) tbl_SubChannel "stopProducing" [] h
     out.exc = none ∧ out.heap = h ∧ out.calls = [⟨"_manager", "subchannel_stopProducing", [.obj "self" []]⟩]) ∧
    (let out := exec (fuel + 1) (envS kd pr) tbl_SubChannel "pauseProducing" [] h
     out.exc = none ∧ out.heap = h ∧ out.calls = [⟨"_manager", "subchannel_pauseProducing", [.obj "self" []]⟩]) ∧
    (let out := exec (fuel + 1) (envS kd pr) tbl_SubChannel "resumeProducing" [] h
     out.exc = none ∧ out.heap = h ∧ out.calls = [⟨"_manager", "subchannel_resumeProducing", [.obj "self" []]⟩]) ∧
    (let out := exec (fuel + 1) (envS kd pr) tbl_SubChannel "unregisterProducer" [] h
     out.exc = none ∧ out.heap = h ∧ out.calls = [⟨"_manager", "subchannel_unregisterProducer", [.obj "self" []]⟩]) ∧
    (let out := exec (fuel + 1) (envS kd pr) tbl_SubChannel "registerProducer" [prod, strm] h
     out.exc = none ∧ out.heap = h ∧
       out.calls = [⟨"_manager", "subchannel_registerProducer", [.obj "self" [], prod, strm]⟩]) := by
  refine ⟨?_, ?_, ?_, ?_, ?_⟩ <;>
    dil_eval [tbl_SubChannel, envS, hmg, m_SubChannel_stopProducing, m_SubChannel_pauseProducing,
      m_SubChannel_resumeProducing, m_SubChannel_unregisterProducer, m_SubChannel_registerProducer]

/-! ## SubchannelDemultiplex -/

macro "dmx_eval" "[" ts:Lean.Parser.Tactic.simpLemma,* "]" : tactic =>
  `(tactic| dil_eval [tbl_SubchannelDemultiplex, envS, errOf, encAddr, encScRef, encFac, tupOf,
      dictGet_fac, dictGet_pend, memKeys_enc keyEnc_str, connectCalls, $ts,*])

/-- `SubchannelDemultiplex(expected)`: no factory, no backlog, the given set -/
theorem demux_init (fuel : Nat) (kd : PKind) (pr : Nat → Nat) (h : Store) (expected : Option (List String)) :
    let out := exec (fuel + 1) (envS kd pr) tbl_SubchannelDemultiplex "__init__" [encExpected expected] h
    out.exc = none ∧ out.calls = [] ∧
      ∀ (fid : String → Nat) (s : Side), s.factories = [] → s.pendingOpens = [] → s.demuxExpected = expected →
        RelDemux fid out.heap s := by
  dmx_eval [m_SubchannelDemultiplex___init__]
  intro fid s h1 h2 h3
  exact ⟨by simp [get_set, h1], by simp [get_set, h2], by simp [get_set, h3]⟩

/-- `_connect(factory, t, peer_addr)`: `buildProtocol(peer_addr)` on the factory, `_set_protocol(p)` on the subchannel,
    `makeConnection(t)` on the new protocol, `_deliver_queued_data()` on the subchannel — in this order, with what
    `buildProtocol` returned as `p` -/
theorem demux_connect (fuel : Nat) (kd : PKind) (pr : Nat → Nat) (h : Store) (fid : String → Nat) (name : String)
    (k : PKind) (u : Nat) :
    let out := exec (fuel + 1) (envS kd pr) tbl_SubchannelDemultiplex "_connect" [encFac fid name k, encScRef u, encAddr name] h
    out.exc = none ∧ out.heap = h ∧ out.calls = connectCalls (encFac fid name k) name u (.ref (kindCls kd) (pr 0)) := by
  dmx_eval [m_SubchannelDemultiplex__connect]

/-- … and when the j-th of them raises, the later ones are not made (`_set_protocol` failing: no `makeConnection`, no
    delivery; `makeConnection` failing: no delivery) — the model's `andThen` chain in `connectSC` -/
theorem demux_connect_raises (fuel : Nat) (kd : PKind) (pr : Nat → Nat) (h : Store) (fid : String → Nat) (name : String)
    (k : PKind) (u : Nat) (c : String) :
    (let out := exec (fuel + 1) (envSR kd pr 0 c) tbl_SubchannelDemultiplex "_connect" [encFac fid name k, encScRef u, encAddr name] h
     out.exc = some c ∧ out.heap = h ∧
       out.calls = (connectCalls (encFac fid name k) name u (.ref (kindCls kd) (pr 0))).take 1) ∧
    (let out := exec (fuel + 1) (envSR kd pr 1 c) tbl_SubchannelDemultiplex "_connect" [encFac fid name k, encScRef u, encAddr name] h
     out.exc = some c ∧ out.heap = h ∧
       out.calls = (connectCalls (encFac fid name k) name u (.ref (kindCls kd) (pr 0))).take 2) ∧
    (let out := exec (fuel + 1) (envSR kd pr 2 c) tbl_SubchannelDemultiplex "_connect" [encFac fid name k, encScRef u, encAddr name] h
     out.exc = some c ∧ out.heap = h ∧
       out.calls = (connectCalls (encFac fid name k) name u (.ref (kindCls kd) (pr 0))).take 3) ∧
    (let out := exec (fuel + 1) (envSR kd pr 3 c) tbl_SubchannelDemultiplex "_connect" [encFac fid name k, encScRef u, encAddr name] h
     out.exc = some c ∧ out.heap = h ∧
       out.calls = connectCalls (encFac fid name k) name u (.ref (kindCls kd) (pr 0))) := by
  refine ⟨?_, ?_, ?_, ?_⟩ <;> dmx_eval [m_SubchannelDemultiplex__connect, envSR]

/-- the model's `connectSC` is the model's meaning of those four calls, when the protocol `buildProtocol` returns is the
    one the model numbers next and has the factory's kind -/
theorem connectSC_is_calls (k : PKind) (uid : Nat) (s : Side) (sc : SC) (hsc : s.subs[uid]? = some sc)
    (fid : String → Nat) :
    connectSC k uid s =
      dcallsSem (connectCalls (encFac fid sc.name k) sc.name uid (.ref (kindCls k) s.protoCount)) s := by
  cases k <;>
    simp [connectSC, hsc, dcallsSem, dcallSem, connectCalls, encAddr, encScRef, encFac, facCls, kindCls, andThen_ok,
      andThen_pure, buildProtocol, emit]

theorem demuxExpected_pend (s : Side) (po : List (String × List Nat)) :
    ({ s with pendingOpens := po } : Side).demuxExpected = s.demuxExpected := rfl

/-- `_got_open(t, peer_addr)`.  A factory is registered: exactly `_connect`'s calls.  Otherwise: `UnexpectedSubprotocol`
    iff a set was given and the name is not in it (nothing is queued then), else the OPEN joins the backlog of its name
    (`appendAt`): this is `gotOpen`. -/
theorem demux_got_open (fuel : Nat) (kd : PKind) (pr : Nat → Nat) (fid : String → Nat) (h : Store) (s : Side)
    (R : RelDemux fid h s) (uid : Nat) (name : String) :
    let out := exec (fuel + 2) (envS kd pr) tbl_SubchannelDemultiplex "_got_open" [encScRef uid, encAddr name] h
    match lookup name s.factories with
    | some k => out.exc = none ∧ out.heap = h ∧
        out.calls = connectCalls (encFac fid name k) name uid (.ref (kindCls kd) (pr 0))
    | none => RelDemux fid out.heap (gotOpen uid name s).1 ∧ out.calls = [] ∧
        out.exc = (gotOpen uid name s).2.map Err.name := by
  obtain ⟨hf, hp, he⟩ := R
  cases hl : lookup name s.factories with
  | some k =>
    dmx_eval [m_SubchannelDemultiplex__got_open, m_SubchannelDemultiplex__connect, hf, hl]
  | none =>
    have he0 := he
    cases hx : s.demuxExpected with
    | none =>
      rw [hx] at he
      cases hq : lookup name s.pendingOpens with
      | none =>
        dmx_eval [m_SubchannelDemultiplex__got_open, hf, hl, hp, he, hq, hx, gotOpen, encExpected]
        exact ⟨by simp [get_set, hf], by simp [get_set, appendAt_absent name uid _ hq, tupOf, encScRef, encAddr],
          by simp [get_set, he, hx, demuxExpected_pend]⟩
      | some us =>
        have hds := dictSet_pend name uid s.pendingOpens us hq
        simp only [tupOf, encScRef, encAddr] at hds
        dmx_eval [m_SubchannelDemultiplex__got_open, hf, hl, hp, he, hq, hx, gotOpen, encExpected, hds]
        exact ⟨by simp [get_set, hf], by simp [get_set], by simp [get_set, he, hx, demuxExpected_pend]⟩
    | some ex =>
      rw [hx] at he
      by_cases hm : name ∈ ex
      · cases hq : lookup name s.pendingOpens with
        | none =>
          dmx_eval [m_SubchannelDemultiplex__got_open, hf, hl, hp, he, hq, hx, gotOpen, encExpected, hm]
          exact ⟨by simp [get_set, hf], by simp [get_set, appendAt_absent name uid _ hq, tupOf, encScRef, encAddr],
            by simp [get_set, he, hx, demuxExpected_pend]⟩
        | some us =>
          have hds := dictSet_pend name uid s.pendingOpens us hq
          simp only [tupOf, encScRef, encAddr] at hds
          dmx_eval [m_SubchannelDemultiplex__got_open, hf, hl, hp, he, hq, hx, gotOpen, encExpected, hds, hm]
          exact ⟨by simp [get_set, hf], by simp [get_set], by simp [get_set, he, hx, demuxExpected_pend]⟩
      · dmx_eval [m_SubchannelDemultiplex__got_open, hf, hl, hp, he, hx, gotOpen, encExpected, hm, Err.name]
        exact ⟨hf, hp, he0⟩

/-- … so with the protocol the model numbers next, `_got_open` with a registered factory is `gotOpen` too -/
theorem demux_got_open_connect (fuel : Nat) (pr : Nat → Nat) (fid : String → Nat) (h : Store) (s : Side)
    (R : RelDemux fid h s) (uid : Nat) (sc : SC) (hsc : s.subs[uid]? = some sc) (k : PKind)
    (hl : lookup sc.name s.factories = some k) (hpr : pr 0 = s.protoCount) :
    let out := exec (fuel + 2) (envS k pr) tbl_SubchannelDemultiplex "_got_open" [encScRef uid, encAddr sc.name] h
    out.exc = none ∧ out.heap = h ∧ gotOpen uid sc.name s = dcallsSem out.calls s := by
  have hg := demux_got_open fuel k pr fid h s R uid sc.name
  rw [hl] at hg
  obtain ⟨h1, h2, h3⟩ := hg
  refine ⟨h1, h2, ?_⟩
  rw [h3, hpr, ← connectSC_is_calls k uid s sc hsc fid]
  simp [gotOpen, hl]

/-- `register(name, factory)`.  Already listening: ValueError, nothing changes.  Otherwise the factory is stored (last),
    the backlog of that name is taken out of `_pending_opens` (or is empty: the `except KeyError` arm), and every queued
    OPEN is connected in arrival order — `_connect`'s four calls each, for EVERY backlog length: this is the model's
    `register` (`connectAll` over `lookup name pendingOpens`, `eraseKey`). -/
theorem demux_register (fuel : Nat) (kd : PKind) (pr : Nat → Nat) (fid : String → Nat) (h : Store) (s : Side)
    (R : RelDemux fid h s) (hnd : (s.pendingOpens.map (·.1)).Nodup) (name : String) (k : PKind) (f : Nat)
    (hfuel : ((lookup name s.pendingOpens).getD []).length + 2 ≤ fuel) :
    let out := exec fuel (envS kd pr) tbl_SubchannelDemultiplex "register" [.str name, .ref (facCls k) f] h
    let fid' := fun x => if x = name then f else fid x
    if (lookup name s.factories).isSome then out.exc = some "ValueError" ∧ out.calls = [] ∧ out.heap = h
    else out.exc = none ∧
      RelDemux fid' out.heap
        { s with factories := s.factories ++ [(name, k)], pendingOpens := eraseKey name s.pendingOpens } ∧
      out.calls = connectAllCalls (.ref (facCls k) f) name (fun j => .ref (kindCls kd) (pr j)) 0
        ((lookup name s.pendingOpens).getD []) := by
  obtain ⟨hf, hp, he⟩ := R
  obtain ⟨F, rfl⟩ : ∃ F, fuel = F + 2 := ⟨fuel - 2, by omega⟩
  cases hl : lookup name s.factories with
  | some k0 =>
    dmx_eval [m_SubchannelDemultiplex_register, hf, hl]
  | none =>
    have hfs := dictSet_fac fid name (.ref (facCls k) f) s.factories hl
    have hrel : ∀ (h' : Store), h'.get "_factories" = some (.dict (s.factories.map (encFactory fid) ++ [(.str name, .ref (facCls k) f)])) →
        h'.get "_pending_opens" = some (.dict ((eraseKey name s.pendingOpens).map encPend)) →
        h'.get "_expected" = some (encExpected s.demuxExpected) →
        RelDemux (fun x => if x = name then f else fid x) h'
          { s with factories := s.factories ++ [(name, k)], pendingOpens := eraseKey name s.pendingOpens } := by
      intro h' h1 h2 h3
      refine ⟨?_, h2, h3⟩
      simp [h1, map_encFactory_update fid name f s.factories hl, encFactory, encFac]
    cases hq : lookup name s.pendingOpens with
    | none =>
      dmx_eval [m_SubchannelDemultiplex_register, hf, hl, hfs, hp, hq]
      generalize hw : whileLoop _ _ _ _ = w
      refine whileLoop_register (.ref (facCls k) f) name (fun j => .ref (kindCls kd) (pr j)) hw [] ?hcond ?hbody ?hI ?hF ?cont
      case hcond =>
        intro h' L cs us hI
        obtain ⟨hpd, hfc⟩ := hI
        dmx_eval [hpd]
      case hbody =>
        intro h' L cs u us hI
        obtain ⟨hpd, hfc⟩ := hI
        refine ⟨((L.set "pending" (.list (us.map (tupOf name)))).set "t" (encScRef u)).set "peer_addr" (encAddr name), ?_, ?_⟩
        · dmx_eval [m_SubchannelDemultiplex__connect, hpd, hfc, List.foldl]
        · exact ⟨by simp [get_set], by simp [get_set, hfc]⟩
      case hI => exact ⟨by simp [Store.get], by simp [Store.get]⟩
      case hF => simp
      case cont =>
        intro L' hw'
        subst hw'
        dmx_eval [connectAllCalls]
        exact hrel _ (by simp [get_set]) (by simp [get_set, hp, eraseKey_absent name _ hq]) (by simp [get_set, he])
    | some us0 =>
      have hdd := dictDel_pend name s.pendingOpens hnd
      dmx_eval [m_SubchannelDemultiplex_register, hf, hl, hfs, hp, hq, hdd]
      generalize hw : whileLoop _ _ _ _ = w
      refine whileLoop_register (.ref (facCls k) f) name (fun j => .ref (kindCls kd) (pr j)) hw us0 ?hcond ?hbody ?hI ?hF ?cont
      case hcond =>
        intro h' L cs us hI
        obtain ⟨hpd, hfc⟩ := hI
        dmx_eval [hpd]
      case hbody =>
        intro h' L cs u us hI
        obtain ⟨hpd, hfc⟩ := hI
        refine ⟨((L.set "pending" (.list (us.map (tupOf name)))).set "t" (encScRef u)).set "peer_addr" (encAddr name), ?_, ?_⟩
        · dmx_eval [m_SubchannelDemultiplex__connect, hpd, hfc, List.foldl]
        · exact ⟨by simp [get_set], by simp [get_set, hfc]⟩
      case hI => exact ⟨by simp [Store.get], by simp [Store.get]⟩
      case hF => rw [hq] at hfuel; simp at hfuel ⊢; omega
      case cont =>
        intro L' hw'
        subst hw'
        dmx_eval [connectAllCalls]
        exact hrel _ (by simp [get_set]) (by simp [get_set]) (by simp [get_set, he])

/-! ## Manager: the forwarders the subchannel outputs call -/

/-- `Manager.subchannel_closed(scid, sc)`: Inbound first (its `assert … is sc` / KeyError is what `closeSem` models), then
    Outbound (producer bookkeeping, C15) -/
theorem mgr_subchannel_closed (fuel : Nat) (kd : PKind) (pr : Nat → Nat) (h : Store) (i o : Nat)
    (hi : h.get "_inbound" = some (.ref "Inbound" i)) (ho : h.get "_outbound" = some (.ref "Outbound" o))
    (scid uid : Nat) :
    let out := exec (fuel + 1) (envS kd pr) tbl_Manager "subchannel_closed" [.int scid, encScRef uid] h
    out.exc = none ∧ out.heap = h ∧
      out.calls = [⟨"_inbound", "subchannel_closed", [.int scid, encScRef uid]⟩,
                   ⟨"_outbound", "subchannel_closed", [.int scid, encScRef uid]⟩] := by
  dil_eval [tbl_Manager, m_Manager_subchannel_closed, envS, hi, ho, encScRef]

/-- … and when Inbound refuses (the model's `keyError` / `assertion` of `close_subchannel`), the exception leaves
    `subchannel_closed` at once: Outbound is not told -/
theorem mgr_subchannel_closed_inbound_raises (fuel : Nat) (kd : PKind) (pr : Nat → Nat) (h : Store) (i o : Nat)
    (hi : h.get "_inbound" = some (.ref "Inbound" i)) (ho : h.get "_outbound" = some (.ref "Outbound" o))
    (scid uid : Nat) (c : String) :
    let out := exec (fuel + 1) (envSR kd pr 0 c) tbl_Manager "subchannel_closed" [.int scid, encScRef uid] h
    out.exc = some c ∧ out.heap = h ∧ out.calls = [⟨"_inbound", "subchannel_closed", [.int scid, encScRef uid]⟩] := by
  dil_eval [tbl_Manager, m_Manager_subchannel_closed, envSR, envS, hi, ho, encScRef]

/-- `Manager.subchannel_local_open(scid, sc)` is handed to Inbound unchanged -/
theorem mgr_subchannel_local_open (fuel : Nat) (kd : PKind) (pr : Nat → Nat) (h : Store) (i : Nat)
    (hi : h.get "_inbound" = some (.ref "Inbound" i)) (scid uid : Nat) :
    let out := exec (fuel + 1) (envS kd pr) tbl_Manager "subchannel_local_open" [.int scid, encScRef uid] h
    out.exc = none ∧ out.heap = h ∧
      out.calls = [⟨"_inbound", "subchannel_local_open", [.int scid, encScRef uid]⟩] := by
  dil_eval [tbl_Manager, m_Manager_subchannel_local_open, envS, hi, encScRef]

/-- `send_open / send_data / send_close`: one `_queue_and_send(<record class>, scid, …)` with the arguments in the
    record's field order (`Outbound.build_record` puts the sequence number in front: `WV.Props.PyIRC10.outbound_build_record`;
    the model: `sendRec (fun q => .txOpen q scid name | .txData q scid d | .txClose q scid)`) -/
theorem mgr_send_records (fuel : Nat) (kd : PKind) (pr : Nat → Nat) (h : Store) (scid : Nat) (name : String) (d : Bytes) :
    (let out := exec (fuel + 1) (envS kd pr) tbl_Manager "send_open" [.int scid, .str name] h
     out.exc = none ∧ out.heap = h ∧
       out.calls = [⟨"self", "_queue_and_send", [.obj "type" [.str "Open"], .int scid, .str name]⟩]) ∧
    (let out := exec (fuel + 1) (envS kd pr) tbl_Manager "send_data" [.int scid, .bytes d] h
     out.exc = none ∧ out.heap = h ∧
       out.calls = [⟨"self", "_queue_and_send", [.obj "type" [.str "Data"], .int scid, .bytes d]⟩]) ∧
    (let out := exec (fuel + 1) (envS kd pr) tbl_Manager "send_close" [.int scid] h
     out.exc = none ∧ out.heap = h ∧
       out.calls = [⟨"self", "_queue_and_send", [.obj "type" [.str "Close"], .int scid]⟩]) := by
  refine ⟨?_, ?_, ?_⟩ <;>
    dil_eval [tbl_Manager, m_Manager_send_open, m_Manager_send_data, m_Manager_send_close, envS]

/-- a subchannel id that is not an int is refused before anything is queued -/
theorem mgr_send_data_refuses_non_int (fuel : Nat) (kd : PKind) (pr : Nat → Nat) (h : Store) (x : String) (d : Bytes) :
    let out := exec (fuel + 1) (envS kd pr) tbl_Manager "send_data" [.str x, .bytes d] h
    out.exc = some "AssertionError" ∧ out.calls = [] ∧ out.heap = h := by
  dil_eval [tbl_Manager, m_Manager_send_data, envS]

/-- `_register_subprotocol_factory(name, factory)` is `SubchannelDemultiplex.register` -/
theorem mgr_register_subprotocol_factory (fuel : Nat) (kd : PKind) (pr : Nat → Nat) (h : Store) (dm : Nat)
    (hd : h.get "_subprotocol_factories" = some (.ref "SubchannelDemultiplex" dm)) (name : String) (fac : Val) :
    let out := exec (fuel + 1) (envS kd pr) tbl_Manager "_register_subprotocol_factory" [.str name, fac] h
    out.exc = none ∧ out.heap = h ∧ out.calls = [⟨"_subprotocol_factories", "register", [.str name, fac]⟩] := by
  dil_eval [tbl_Manager, m_Manager__register_subprotocol_factory, envS, hd]

/-- **`Inbound.subchannel_closed(scid, sc)` is what the model's `close_subchannel` does to `open_`** (`closeSem`, i.e.
    `runOut … .close_subchannel` through `sc_close_subchannel` and `mgr_subchannel_closed`): KeyError when the id is not
    open, AssertionError when another object holds it, otherwise the entry is deleted.  The body is the one generated into
    `WV.Gen.PyIRDil` (`tbl_Inbound`).  Stated for an Inbound with no paused subchannel (C13 has no flow control; the
    `subchannel_stopProducing(sc)` at the end then changes nothing and calls nothing — its general form is C15's
    `inbound_subchannel_stopProducing`). -/
theorem inbound_subchannel_closed (fuel : Nat) (h : Store) (s : Side) (R : RelOpen h s)
    (hnd : (s.open_.map (·.1)).Nodup) (hps : h.get "_paused_subchannels" = some (.set []))
    (hcn : h.get "_connection" = some .none ∨ ∃ c i, h.get "_connection" = some (.ref c i)) (scid uid : Nat) :
    let out := exec (fuel + 2) (envD noRe) WV.Gen.PyIRDil.tbl_Inbound "subchannel_closed" [.int scid, encScRef uid] h
    RelOpen out.heap (closeSem uid scid s).1 ∧ out.exc = (closeSem uid scid s).2.map Err.name ∧ out.calls = [] := by
  unfold RelOpen at R ⊢
  have hdd := dictDel_open scid s.open_ hnd
  cases hl : lookup scid s.open_ with
  | none =>
    dil_eval [WV.Gen.PyIRDil.tbl_Inbound, WV.Gen.PyIRDil.m_Inbound_subchannel_closed, envD, R, dictGet_open, hl,
      closeSem, encScRef, Err.name]
  | some u =>
    by_cases hu : u = uid
    · subst hu
      rcases hcn with hcn | ⟨c, i, hcn⟩ <;>
        dil_eval [WV.Gen.PyIRDil.tbl_Inbound, WV.Gen.PyIRDil.m_Inbound_subchannel_closed,
          WV.Gen.PyIRDil.m_Inbound_subchannel_stopProducing, envD, noRe, R, dictGet_open, hl, closeSem, encScRef, hdd,
          hps, hcn, setDel]
    · dil_eval [WV.Gen.PyIRDil.tbl_Inbound, WV.Gen.PyIRDil.m_Inbound_subchannel_closed, envD, R, dictGet_open, hl,
        closeSem, encScRef, Err.name, hu]

/-! ## non-vacuity: concrete heaps in the relations, decided runs of the generated bodies -/

/-- an unconnected SubChannel (id 1) with two queued chunks and a queued close -/
def demoSC : SC :=
  { scid := 1, name := "p", st := .unconnected, proto := none, pendingData := some [[1], [2, 3]], pendingClose := true }

def demoHeap : Store :=
  [("_scid", .int 1), ("_manager", .ref "Manager" 0), ("_host_addr", .ref "_WormholeAddress" 0),
   ("_peer_addr", .obj "SubchannelAddress" [.str "p"]), ("_protocol", .none),
   ("_pending_remote_data", .list [.bytes [1], .bytes [2, 3]]), ("_pending_remote_close", .bool true)]

example : RelSC demoHeap demoSC :=
  ⟨rfl, ⟨0, rfl⟩, rfl, rfl, Or.inl rfl⟩

/-- the two chunks in arrival order, then the close; afterwards both queue attributes are gone -/
example : let o := exec 3 (envS .full id) tbl_SubChannel "_deliver_queued_data" [] demoHeap
    o.calls.map (fun c => (c.meth, c.args.length)) = [("remote_data", 1), ("remote_data", 1), ("remote_close", 0)] ∧
      o.exc = none ∧ (o.heap.get "_pending_remote_data").isNone = true ∧
      (o.heap.get "_pending_remote_close").isNone = true := by decide

/-- a second `_deliver_queued_data()` finds the attribute deleted -/
example : (exec 3 (envS .full id) tbl_SubChannel "_deliver_queued_data" []
    (exec 3 (envS .full id) tbl_SubChannel "_deliver_queued_data" [] demoHeap).heap).exc = some "AttributeError" := by decide

/-- `_set_protocol` with a half-closeable protocol feeds `connect_protocol_half`; a second one trips the assertion -/
example : let o := exec 3 (envS .half id) tbl_SubChannel "_set_protocol" [encProto (some (5, .half))] demoHeap
    o.calls.map (·.meth) = ["connect_protocol_half"] ∧ o.exc = none ∧
      (exec 3 (envS .half id) tbl_SubChannel "_set_protocol" [encProto (some (6, .full))] o.heap).exc = some "AssertionError" := by
  decide

/-- the outputs on a connected object: data goes to the protocol, a full protocol cannot be adapted -/
def demoHeapOpen : Store :=
  [("_scid", .int 3), ("_manager", .ref "Manager" 0), ("_protocol", .ref "Protocol" 4),
   ("_pending_remote_data", .list []), ("_pending_remote_close", .bool false)]

example : RelSC demoHeapOpen
    { scid := 3, name := "p", st := .open_full, proto := some (4, .full), pendingData := some [], pendingClose := false } :=
  ⟨rfl, ⟨0, rfl⟩, rfl, rfl, Or.inl rfl⟩

example : (exec 3 (envS .full id) tbl_SubChannel "signal_dataReceived" [.bytes [9]] demoHeapOpen).calls.map
      (fun c => (c.obj, c.meth)) = [("_protocol", "dataReceived")] ∧
    (exec 3 (envS .full id) tbl_SubChannel "signal_readConnectionLost" [] demoHeapOpen).exc = some "TypeError" ∧
    (exec 3 (envS .full id) tbl_SubChannel "error_closed_write" [.bytes [9]] demoHeapOpen).exc = some "AlreadyClosedError" ∧
    (exec 3 (envS .full id) tbl_SubChannel "close_subchannel" [] demoHeapOpen).calls.map
      (fun c => (c.obj, c.meth, c.args.length)) = [("_manager", "subchannel_closed", 2)] := by decide

/-- a demultiplexer that listens for "p", holds one queued OPEN for "q" (subchannel #2), and expects {"p", "q"} -/
def demoSide : Side :=
  { Side.init true 1 (some ["p", "q"]) with factories := [("p", .full)], pendingOpens := [("q", [2])] }

def demoDemux : Store :=
  [("_factories", .dict [(.str "p", .ref "Factory" 7)]),
   ("_pending_opens", .dict [(.str "q", .list [.tuple [.ref "SubChannel" 2, .obj "SubchannelAddress" [.str "q"]]])]),
   ("_expected", .list [.str "p", .str "q"])]

example : RelDemux (fun _ => 7) demoDemux demoSide := by
  have hw : demoSide.demuxExpected = some ["p", "q"] := by decide
  exact ⟨rfl, rfl, by rw [hw]; rfl⟩

/-- an OPEN for "q" joins the backlog behind the first; one for "zz" is refused; one for "p" is connected at once -/
example :
    (let o := exec 4 (envS .full id) tbl_SubchannelDemultiplex "_got_open" [encScRef 3, encAddr "q"] demoDemux
     (match o.heap.get "_pending_opens" with
      | some (.dict [(_, .list l)]) => l.length
      | _ => 0) = 2 ∧ o.exc = none ∧ o.calls.length = 0) ∧
    (exec 4 (envS .full id) tbl_SubchannelDemultiplex "_got_open" [encScRef 3, encAddr "zz"] demoDemux).exc =
      some "UnexpectedSubprotocol" ∧
    (exec 4 (envS .full id) tbl_SubchannelDemultiplex "_got_open" [encScRef 3, encAddr "p"] demoDemux).calls.map (·.meth) =
      ["buildProtocol", "_set_protocol", "makeConnection", "_deliver_queued_data"] := by decide

/-- `register("q", f)` connects the queued OPEN and empties the backlog; `register("p", f)` is refused -/
example :
    (let o := exec 5 (envS .full id) tbl_SubchannelDemultiplex "register" [.str "q", .ref "Factory" 8] demoDemux
     o.calls.map (·.meth) = ["buildProtocol", "_set_protocol", "makeConnection", "_deliver_queued_data"] ∧ o.exc = none ∧
       (match o.heap.get "_pending_opens" with
        | some (.dict l) => l.length
        | _ => 9) = 0) ∧
    (exec 5 (envS .full id) tbl_SubchannelDemultiplex "register" [.str "p", .ref "Factory" 8] demoDemux).exc =
      some "ValueError" := by decide

/-! ## pins -/

/-- every method the translator was asked for is in the subset, except `Manager._queue_and_send` (`*args` forwarded to a
    collaborator); a rewrite that leaves the subset breaks this theorem -/
theorem all_translated : WV.Gen.PyIRSub.untranslatable = [("Manager._queue_and_send", "*args")] := by decide

theorem translated_pin : WV.Gen.PyIRSub.translated =
    ["SubChannel.__attrs_post_init__", "SubChannel._deliver_queued_data", "SubChannel._set_protocol",
     "SubChannel.close_subchannel", "SubChannel.error_closed_close", "SubChannel.error_closed_write",
     "SubChannel.loseConnection", "SubChannel.loseWriteConnection", "SubChannel.pauseProducing",
     "SubChannel.queue_remote_close", "SubChannel.queue_remote_data", "SubChannel.registerProducer",
     "SubChannel.resumeProducing", "SubChannel.send_close", "SubChannel.send_data", "SubChannel.signal_connectionLost",
     "SubChannel.signal_dataReceived", "SubChannel.signal_readConnectionLost", "SubChannel.signal_writeConnectionLost",
     "SubChannel.stopProducing", "SubChannel.unregisterProducer", "SubChannel.write", "SubChannel.writeSequence",
     "SubchannelDemultiplex.__init__", "SubchannelDemultiplex._connect", "SubchannelDemultiplex._got_open",
     "SubchannelDemultiplex.register", "Manager._register_subprotocol_factory", "Manager.send_close", "Manager.send_data",
     "Manager.send_open", "Manager.subchannel_closed", "Manager.subchannel_local_open"] := by decide

/-- the `@m.output`s the translator found on the class are exactly the outputs of the generated transition table, and
    each of them was translated (so `sc_outputs_agree` covers every output the table can name) -/
theorem outputs_are_the_tables :
    WV.Gen.PyIRSub.outputs =
      [SubChannel.Output.close_subchannel, .error_closed_close, .error_closed_write, .queue_remote_close,
       .queue_remote_data, .send_close, .send_data, .signal_connectionLost, .signal_dataReceived,
       .signal_readConnectionLost, .signal_writeConnectionLost].map (fun o => "SubChannel." ++ o.name) ∧
    WV.Gen.PyIRSub.outputs.all (fun o => WV.Gen.PyIRSub.translated.contains o) = true := by decide

/-- `peer_addr.subprotocol` is attribute 0 of exactly `SubchannelAddress` (what `encAddr` and `fieldAt … 0` rely on);
    the one default value in the covered signatures -/
theorem subprotocol_is_field_zero :
    WV.Gen.PyIRSub.attrsFields.filter (fun c => c.2.contains "subprotocol") = [("SubchannelAddress", ["subprotocol"])] ∧
    WV.Gen.PyIRSub.defaults = [("SubchannelDemultiplex.__init__.expected_subprotocols", "None")] := by decide

end WV.Props.PyIRSubC13

#print axioms WV.Props.PyIRSubC13.sc_outputs_agree
#print axioms WV.Props.PyIRSubC13.sc_set_protocol
#print axioms WV.Props.PyIRSubC13.sc_deliver_queued_data
#print axioms WV.Props.PyIRSubC13.demux_got_open
#print axioms WV.Props.PyIRSubC13.demux_register
#print axioms WV.Props.PyIRSubC13.mgr_subchannel_closed
#print axioms WV.Props.PyIRSubC13.all_translated
